"""Correspondence streams and real-code falsifiers shared by C04–C07."""
import os, sys
sys.path.insert(0, os.path.join(os.path.dirname(os.path.abspath(__file__)), '..'))
import common
from gen import plural as G

common.setup_repo_import()

def real_parse(s):
    from lib import gettext as lg
    return lg.parse_plural_expression(s)

def canon_exc(exc):
    n = type(exc).__name__
    return 'err ' + n

def impl_eval(expr, bits, n):
    try:
        v = expr(n, bits=bits)
    except (OverflowError, ZeroDivisionError) as exc:
        return canon_exc(exc)
    except Exception as exc:   # anything else is a crash of the real code
        return canon_exc(exc)
    return f'ok {v}'

def impl_optpair(fn):
    try:
        r = fn()
    except Exception as exc:
        return canon_exc(exc)
    if r is None:
        return 'ok none'
    a, b = r
    return f'ok {int(a)} {int(b)}'

def build_cases(chk, count, depth=5, bits_choices=(1, 2, 3, 4, 5, 6, 7, 8, 16, 31, 32, 33, 64)):
    """(tuple-AST as built by the REAL parser, real Expression, bits) triples"""
    rng = chk.rng
    cases = []
    texts = list(G.REGISTRY_STYLE)
    for t in texts:
        try:
            ex = real_parse(t)
            cases.append((G.from_pyast(ex._node), ex, 32))
        except Exception as exc:
            chk.coverage.setdefault('unparsable_cases', []).append({'expr': t, 'exception': repr(exc)})
    while len(cases) < count:
        bits = rng.choice(bits_choices)
        consts = G.boundary_consts(bits)
        e = G.gen_expr(rng, rng.randint(1, depth), consts)
        try:
            ex = real_parse(G.render_full(e))
            e2 = G.from_pyast(ex._node)
        except Exception as exc:      # the real parser rejects/crashes on a valid, fully parenthesised expression
            chk.coverage.setdefault('unparsable_cases', []).append({'expr': G.render_full(e), 'exception': repr(exc)})
            if len(chk.coverage['unparsable_cases']) > 50:
                break
            continue
        cases.append((e2, ex, bits))
    return cases

def sample_ns(rng, bits, k=6):
    m = 1 << bits
    ns = {0, 1, m - 1, m // 2, min(2, m - 1), min(10, m - 1), min(11, m - 1), min(100, m - 1), min(101, m - 1)}
    for _ in range(k):
        ns.add(rng.randrange(m))
        ns.add(rng.randrange(min(m, 256)))
    return sorted(ns)

def stream_eval(chk, cases, per_case=8):
    lines, outs = [], []
    for e, ex, bits in cases:
        pre = G.to_prefix(e)
        ns = sample_ns(chk.rng, bits)
        for n in chk.rng.sample(ns, k=min(per_case, len(ns))):
            lines.append(f'plural eval {bits} {n} {pre}')
            outs.append(impl_eval(ex, bits, n))
    return chk.stream('plural-eval', lines, outs)

def stream_codomain(chk, cases):
    lines = [f'plural codomain {bits} {G.to_prefix(e)}' for e, ex, bits in cases]
    outs = [impl_optpair(lambda ex=ex, bits=bits: ex.codomain(bits=bits)) for e, ex, bits in cases]
    return chk.stream('plural-codomain', lines, outs)

def stream_period(chk, cases):
    lines = [f'plural period {bits} {G.to_prefix(e)}' for e, ex, bits in cases]
    outs = [impl_optpair(lambda ex=ex, bits=bits: ex.period(bits=bits)) for e, ex, bits in cases]
    return chk.stream('plural-period', lines, outs)

def stream_gcd_lcm(chk, count):
    from lib import intexpr
    rng = chk.rng
    lines, outs = [], []
    for _ in range(count):
        x = rng.choice([0, 1, 2, 3, 6, 10, 12, 100, rng.randrange(1 << 16), rng.randrange(1 << 33)])
        y = rng.choice([0, 1, 2, 3, 4, 10, 18, 100, rng.randrange(1 << 16), rng.randrange(1 << 33)])
        lines.append(f'plural gcd {x} {y}')
        outs.append(impl_optint(lambda: intexpr.gcd(x, y)))
        xs = [rng.choice([1, 2, 3, 4, 6, 10, 100, rng.randrange(1, 1 << 12)]) for _ in range(rng.randint(1, 3))]
        lines.append('plural lcm ' + ' '.join(map(str, xs)))
        outs.append(impl_optint(lambda: intexpr.lcm(*xs)))
    return chk.stream('plural-gcd-lcm', lines, outs)

def impl_optint(fn):
    try:
        return f'ok {fn()}'
    except Exception as exc:
        return canon_exc(exc)

# ------------------------------------------------------------------ falsifiers on the REAL code

def outcome(ex, n, bits):
    try:
        return ex(n, bits=bits)
    except (OverflowError, ZeroDivisionError):
        return None

def falsify_codomain(chk, budget, max_bits=5):
    """C05 on the real code: all n < 2^b for small b.  Returns a replay dict or None."""
    rng = chk.rng
    tried = 0
    by_size_cache = {}
    def candidates():
        # exhaustive small scope first, then random deeper expressions
        for bits in range(0, max_bits + 1):
            m = 1 << bits
            consts = sorted({0, 1, 2, 3, m - 1, m})
            for s, es in G.enum_exprs(3 if bits > 2 else 4, consts[:5] if bits > 2 else consts).items():
                for e in es:
                    yield e, bits
        fam = []
        for bits in (2, 3):
            m = 1 << bits
            fam += [(e, bits) for e in G.two_op_family(sorted({0, 1, 2, 3, m - 1}))]
        rng.shuffle(fam)
        for e, bits in fam:
            yield e, bits
        while True:
            bits = rng.randint(0, max_bits)
            yield G.gen_expr(rng, rng.randint(2, 5), G.boundary_consts(bits)), bits
    for e, bits in candidates():
        if tried >= budget:
            break
        tried += 1
        ex = real_parse(G.render_full(e))
        try:
            cd = ex.codomain(bits=bits)
        except Exception as exc:
            return {'kind': 'codomain-crash', 'expr': G.render_full(e), 'bits': bits, 'exception': repr(exc),
                    'replay': f"lib.gettext.parse_plural_expression({G.render_full(e)!r}).codomain(bits={bits})"}, tried
        vals = [outcome(ex, n, bits) for n in range(1 << bits)]
        good = [v for v in vals if v is not None]
        if cd is None:
            if good:
                n = next(i for i, v in enumerate(vals) if v is not None)
                return {'kind': 'codomain-none-but-succeeds', 'expr': G.render_full(e), 'bits': bits, 'n': n, 'value': vals[n],
                        'replay': f"e=lib.gettext.parse_plural_expression({G.render_full(e)!r}); e.codomain(bits={bits}) is None and e({n}, bits={bits})"}, tried
        else:
            L, R = cd
            for n, v in enumerate(vals):
                if v is not None and not (L <= v <= R):
                    return {'kind': 'codomain-unsound', 'expr': G.render_full(e), 'bits': bits, 'n': n, 'value': v, 'codomain': [int(L), int(R)],
                            'replay': f"e=lib.gettext.parse_plural_expression({G.render_full(e)!r}); e.codomain(bits={bits}), e({n}, bits={bits})"}, tried
    return None, tried

def falsify_period(chk, budget, max_bits=6):
    rng = chk.rng
    tried = 0
    def candidates():
        for bits in range(0, 5):
            m = 1 << bits
            consts = sorted({0, 1, 2, 3, m - 1, m})
            for s, es in G.enum_exprs(3 if bits > 2 else 4, consts[:5] if bits > 2 else consts).items():
                for e in es:
                    yield e, bits
        fam = []
        for bits in (2, 3, 4):
            m = 1 << bits
            fam += [(e, bits) for e in G.two_op_family(sorted({0, 1, 2, 3, m - 1}))]
        rng.shuffle(fam)
        for e, bits in fam:
            yield e, bits
        while True:
            bits = rng.randint(0, max_bits)
            yield G.gen_expr(rng, rng.randint(2, 5), G.boundary_consts(bits), pmod=0.4), bits
    for e, bits in candidates():
        if tried >= budget:
            break
        tried += 1
        ex = real_parse(G.render_full(e))
        try:
            pr = ex.period(bits=bits)
        except Exception as exc:
            return {'kind': 'period-crash', 'expr': G.render_full(e), 'bits': bits, 'exception': repr(exc),
                    'replay': f"lib.gettext.parse_plural_expression({G.render_full(e)!r}).period(bits={bits})"}, tried
        if pr is None:
            continue
        O, P = pr
        m = 1 << bits
        if P <= 0 or O < 0:
            return {'kind': 'period-degenerate', 'expr': G.render_full(e), 'bits': bits, 'period': [O, P]}, tried
        vals = [outcome(ex, n, bits) for n in range(m)]
        for n in range(O, m - P):
            if vals[n] != vals[n + P]:
                return {'kind': 'period-unsound', 'expr': G.render_full(e), 'bits': bits, 'n': n, 'period': [int(O), int(P)],
                        'outcomes': [vals[n], vals[n + P]],
                        'replay': f"e=lib.gettext.parse_plural_expression({G.render_full(e)!r}); e.period(bits={bits}), e({n}, bits={bits}), e({n + P}, bits={bits})"}, tried
    return None, tried

def falsify_period_32(chk, budget):
    """windows around O and around 2^32 - P at the width the tool uses"""
    rng = chk.rng
    tried = 0
    m = 1 << 32
    while tried < budget:
        tried += 1
        e = G.gen_expr(rng, rng.randint(2, 5), [0, 1, 2, 3, 4, 5, 10, 11, 20, 100, 1000, m - 1, m - 2, 65536, 65537], pmod=0.45)
        ex = real_parse(G.render_full(e))
        try:
            pr = ex.period(bits=32)
        except Exception as exc:
            return {'kind': 'period-crash', 'expr': G.render_full(e), 'bits': 32, 'exception': repr(exc)}, tried
        if pr is None:
            continue
        O, P = pr
        pts = set(range(O, min(O + 40, m - P)))
        pts |= set(range(max(O, m - P - 40), m - P))
        for _ in range(20):
            if m - P > O:
                pts.add(rng.randrange(O, m - P))
        for n in sorted(pts):
            if outcome(ex, n, 32) != outcome(ex, n + P, 32):
                return {'kind': 'period-unsound', 'expr': G.render_full(e), 'bits': 32, 'n': n, 'period': [int(O), int(P)],
                        'replay': f"e=lib.gettext.parse_plural_expression({G.render_full(e)!r}); e.period(), e({n}), e({n + P})"}, tried
    return None, tried

# ------------------------------------------------------------------ parser correspondence

def hexchars(s):
    return '.'.join('%x' % ord(c) for c in s) if s else '-'

def impl_parse(s):
    from lib import gettext as lg
    try:
        ex = lg.parse_plural_expression(s)
    except lg.PluralExpressionSyntaxError:
        return 'err syntax'
    except Exception as exc:
        return 'err ' + type(exc).__name__
    try:
        return 'ok ' + G.to_prefix(G.from_pyast(ex._node))
    except ValueError as exc:
        return f'err ast-shape {exc}'

TOKEN_KINDS = [['?'], [':'], ['||'], ['&&'], ['==', '!='], ['<', '<=', '>', '>='], ['+', '-'], ['*', '/', '%'], ['!'], ['('], [')'], ['n'], ['0', '1', '7', '10', '42']]
LEX_ALPHABET = ['n', '0', '1', '!', '=', '<', '>', '&', '|', '?', ':', '(', ')', '+', '%', ' ', '\t', 'x']

def token_strings(rng, maxlen):
    """every sequence of token kinds up to maxlen, each kind spelled by a random member, joined with a separator that
    keeps the tokens apart only where juxtaposition would merge them"""
    import itertools
    for L in range(0, maxlen + 1):
        for kinds in itertools.product(range(len(TOKEN_KINDS)), repeat=L):
            toks = [rng.choice(TOKEN_KINDS[k]) for k in kinds]
            out = ''
            for t in toks:
                if out and ((out[-1].isdigit() and t[0].isdigit()) or (out[-1] in '!=<>' and t[0] == '=') or rng.random() < 0.1):
                    out += rng.choice([' ', '\t', '  '])
                out += t
            yield out

def char_strings(maxlen):
    import itertools
    for L in range(0, maxlen + 1):
        for cs in itertools.product(LEX_ALPHABET, repeat=L):
            yield ''.join(cs)

def mutate(rng, s):
    if not s:
        return 'n'
    i = rng.randrange(len(s))
    r = rng.random()
    pool = 'n0123456789!=<>&|?:()+-*/% \t;x\n'
    if r < 0.35:
        return s[:i] + s[i + 1:]
    if r < 0.7:
        return s[:i] + rng.choice(pool) + s[i:]
    return s[:i] + rng.choice(pool) + s[i + 1:]

def stream_parse(chk, tok_len, char_len, n_random):
    rng = chk.rng
    strings = []
    strings += list(token_strings(rng, tok_len))
    strings += list(char_strings(char_len))
    strings += list(G.REGISTRY_STYLE)
    for _ in range(n_random):
        bits = rng.choice([8, 32])
        e = G.gen_expr(rng, rng.randint(1, 6), [0, 1, 2, 3, 4, 5, 10, 11, 12, 14, 19, 20, 100, 4294967295, 4294967296, 10 ** 30])
        s = G.render_min(e, rng)
        strings.append(s)
        if rng.random() < 0.5:
            strings.append(mutate(rng, s))
        if rng.random() < 0.2:
            strings.append(mutate(rng, mutate(rng, s)))
    # numerals at the int() digit limit, inside otherwise valid expressions
    for d in (4299, 4300, 4301, 5000):
        strings.append('n == ' + '1' * d)
        strings.append('0' * d + ' + n')
    lines = ['plural parse ' + hexchars(s) for s in strings]
    outs = [impl_parse(s) for s in strings]
    chk.note_cases({s for s, o in zip(strings, outs) if o.startswith('ok') and len(s) > 1})
    chk.coverage.setdefault('parse_inputs', {}).update({'token_strings_len_le': tok_len, 'char_strings_len_le': char_len,
                                                         'random_and_mutated': len(strings), 'accepted': sum(o.startswith('ok') for o in outs)})
    return chk.stream('plural-parse', lines, outs), strings

# reference parser written directly from plural.y (independent of the Lean model): used by the C04 falsifier

class RefSyntaxError(Exception):
    pass

def big_int(digits):
    """decimal → int without tripping CPython's 4300-digit limit (which must stay in force for the code under test)"""
    v = 0
    for k in range(0, len(digits), 4000):
        chunk = digits[k:k + 4000]
        v = v * (10 ** len(chunk)) + int(chunk)
    return v

def ref_lex(s):
    i, out = 0, []
    while i < len(s):
        c = s[i]
        if c in ' \t':
            i += 1; continue
        if c == 'n':
            out.append(('n',)); i += 1; continue
        if c in '0123456789':
            j = i
            while j < len(s) and s[j] in '0123456789':
                j += 1
            out.append(('num', big_int(s[i:j]))); i = j; continue
        two = s[i:i + 2]
        if two in ('==', '!=', '<=', '>=', '&&', '||'):
            out.append((two,)); i += 2; continue
        if c in '<>!*/%+-?:()':
            out.append((c,)); i += 1; continue
        raise RefSyntaxError(c)
    return out

REF_PREC = [('||',), ('&&',), ('==', '!='), ('<', '<=', '>', '>='), ('+', '-'), ('*', '/', '%')]

def ref_parse(s):
    toks = ref_lex(s)
    pos = 0
    def peek():
        return toks[pos][0] if pos < len(toks) else None
    def take():
        nonlocal pos
        t = toks[pos]; pos += 1
        return t
    def cond():
        c = binary(0)
        if peek() == '?':
            take()
            a = cond()
            if peek() != ':':
                raise RefSyntaxError('expected :')
            take()
            b = cond()
            return ('if', c, a, b)
        return c
    def binary(level):
        if level == len(REF_PREC):
            return unary()
        left = binary(level + 1)
        while peek() in REF_PREC[level]:
            op = take()[0]
            right = binary(level + 1)
            kind = 'bool' if op in ('&&', '||') else 'cmp' if op in G.CMP else 'bin'
            left = (kind, op, left, right)
        return left
    def unary():
        t = peek()
        if t == '!':
            take()
            return ('not', unary())
        if t == 'n':
            take(); return ('name',)
        if t == 'num':
            return ('num', take()[1])
        if t == '(':
            take()
            e = cond()
            if peek() != ')':
                raise RefSyntaxError('expected )')
            take()
            return e
        raise RefSyntaxError(f'unexpected {t}')
    e = cond()
    if pos != len(toks):
        raise RefSyntaxError('trailing')
    return e

def ref_eval(e, n, bits):
    """C semantics with the statement's failure rule; returns value or 'overflow'/'zerodiv'"""
    m = 1 << bits
    class Fail(Exception):
        pass
    def chk(v):
        if v < 0 or v >= m:
            raise Fail('overflow')
        return v
    def go(e):
        k = e[0]
        if k == 'num':
            return chk(e[1])
        if k == 'name':
            return chk(n)
        if k == 'not':
            return int(go(e[1]) == 0)
        if k == 'bin':
            x, y = go(e[2]), go(e[3])
            op = e[1]
            if op == '+': return chk(x + y)
            if op == '-': return chk(x - y)
            if op == '*': return chk(x * y)
            if y == 0:
                raise Fail('zerodiv')
            return x // y if op == '/' else x % y
        if k == 'cmp':
            x, y = go(e[2]), go(e[3])
            return int({'==': x == y, '!=': x != y, '<': x < y, '<=': x <= y, '>': x > y, '>=': x >= y}[e[1]])
        if k == 'bool':
            x = go(e[2])
            if e[1] == '&&':
                return 0 if x == 0 else int(go(e[3]) != 0)
            return 1 if x != 0 else int(go(e[3]) != 0)
        if k == 'if':
            return go(e[2]) if go(e[1]) != 0 else go(e[3])
        raise ValueError(e)
    try:
        return go(e)
    except Fail as f:
        return f.args[0]

def shrink_string(s, fails, max_steps=2000):
    """greedy delta debugging on characters: smallest string (found) on which `fails` still holds"""
    steps = 0
    changed = True
    while changed and steps < max_steps:
        changed = False
        for size in (8, 4, 2, 1):
            i = 0
            while i < len(s) and steps < max_steps:
                t = s[:i] + s[i + size:]
                steps += 1
                if t != s and fails(t):
                    s = t
                    changed = True
                else:
                    i += 1
    return s

def falsify_parse_eval(chk, budget, strings=None):
    cex, tried = _falsify_parse_eval(chk, budget, strings)
    if cex is not None and cex.get('kind', '').startswith('parse'):
        kind = cex['kind']
        def fails(t):
            c, _ = _falsify_parse_eval(chk, 1, [t], only_pool=True)
            return c is not None and c.get('kind') == kind
        small = shrink_string(cex['input'], fails)
        c2, _ = _falsify_parse_eval(chk, 1, [small], only_pool=True)
        if c2 is not None:
            cex = c2
    return cex, tried

def _falsify_parse_eval(chk, budget, strings=None, only_pool=False):
    """C04 on the real code against the reference parser/evaluator written from plural.y."""
    rng = chk.rng
    tried = 0
    pool = list(strings or [])
    rng.shuffle(pool)
    pool.sort(key=len)
    if not only_pool:
        pool.insert(0, 'n == ' + '1' * 4301)      # corpus: the recorded int() digit-limit witness always runs
    def cands():
        for s in pool:
            yield s
        while not only_pool:
            e = G.gen_expr(rng, rng.randint(1, 5), [0, 1, 2, 3, 5, 10, 255, 256, 4294967295, 4294967296])
            s = G.render_min(e, rng)
            yield s if rng.random() < 0.6 else mutate(rng, s)
    from lib import gettext as lg
    for s in cands():
        if tried >= budget:
            break
        tried += 1
        try:
            ref = ref_parse(s)
        except RefSyntaxError:
            ref = None
        try:
            ex = lg.parse_plural_expression(s)
            got = G.from_pyast(ex._node)
        except lg.PluralExpressionSyntaxError:
            ex, got = None, None
        except RecursionError:
            continue
        except ValueError as exc:
            import re as _re
            if _re.search(r'[0-9]{4301}', s):
                if chk.violation('int() digit limit in the plural expression parser',
                                 {'kind': 'int-digit-limit', 'input_prefix': s[:40], 'input_length': len(s), 'exception': repr(exc)[:200],
                                  'replay': "lib.gettext.parse_plural_expression('n == ' + '1' * 4301)"}, key='C04:int-digit-limit'):
                    return {'kind': 'parse-crash', 'input': s[:200], 'exception': repr(exc)[:200]}, tried
                continue
            return {'kind': 'parse-crash', 'input': s, 'exception': repr(exc)}, tried
        except Exception as exc:
            return {'kind': 'parse-crash', 'input': s, 'exception': repr(exc)}, tried
        if ref != got:
            return {'kind': 'parse-differs-from-plural.y', 'input': s, 'tool': repr(got), 'reference': repr(ref),
                    'replay': f'lib.gettext.parse_plural_expression({s!r})'}, tried
        if ex is not None and G.size(got) < 60:
            for bits in (32, rng.choice([1, 2, 3, 8])):
                m = 1 << bits
                for n in {0, 1 % m, 2 % m, m - 1, rng.randrange(m), rng.randrange(min(m, 200))}:
                    want = ref_eval(got, n, bits)
                    try:
                        have = ex(n, bits=bits)
                    except OverflowError:
                        have = 'overflow'
                    except ZeroDivisionError:
                        have = 'zerodiv'
                    except Exception as exc:
                        return {'kind': 'eval-crash', 'input': s, 'n': n, 'bits': bits, 'exception': repr(exc)}, tried
                    ok = (have == want) if isinstance(want, int) else (have in ('overflow', 'zerodiv'))
                    if not ok:
                        return {'kind': 'eval-differs-from-C', 'input': s, 'n': n, 'bits': bits, 'tool': have, 'reference': want,
                                'replay': f'lib.gettext.parse_plural_expression({s!r})({n}, bits={bits})'}, tried
    return None, tried
