"""Correspondence streams and real-code falsifiers shared by C04–C07."""
import os, sys
sys.path.insert(0, os.path.join(os.path.dirname(os.path.abspath(__file__)), '..'))
import common
from gen import plural as G

common.setup_repo_import()

def real_parse(s):
    from lib import gettext as lg
    return lg.parse_plural_expression(s)

def canon_exc(exc):
    n = type(exc).__name__
    return 'err ' + n

def impl_eval(expr, bits, n):
    try:
        v = expr(n, bits=bits)
    except (OverflowError, ZeroDivisionError) as exc:
        return canon_exc(exc)
    except Exception as exc:   # anything else is a crash of the real code
        return canon_exc(exc)
    return f'ok {v}'

def impl_optpair(fn):
    try:
        r = fn()
    except Exception as exc:
        return canon_exc(exc)
    if r is None:
        return 'ok none'
    a, b = r
    return f'ok {int(a)} {int(b)}'

def build_cases(chk, count, depth=5, bits_choices=(1, 2, 3, 4, 5, 6, 7, 8, 16, 31, 32, 33, 64)):
    """(tuple-AST as built by the REAL parser, real Expression, bits) triples"""
    rng = chk.rng
    cases = []
    texts = list(G.REGISTRY_STYLE)
    for t in texts:
        ex = real_parse(t)
        cases.append((G.from_pyast(ex._node), ex, 32))
    while len(cases) < count:
        bits = rng.choice(bits_choices)
        consts = G.boundary_consts(bits)
        e = G.gen_expr(rng, rng.randint(1, depth), consts)
        ex = real_parse(G.render_full(e))
        e2 = G.from_pyast(ex._node)
        cases.append((e2, ex, bits))
    return cases

def sample_ns(rng, bits, k=6):
    m = 1 << bits
    ns = {0, 1, m - 1, m // 2, min(2, m - 1), min(10, m - 1), min(11, m - 1), min(100, m - 1), min(101, m - 1)}
    for _ in range(k):
        ns.add(rng.randrange(m))
        ns.add(rng.randrange(min(m, 256)))
    return sorted(ns)

def stream_eval(chk, cases, per_case=8):
    lines, outs = [], []
    for e, ex, bits in cases:
        pre = G.to_prefix(e)
        for n in chk.rng.sample(sample_ns(chk.rng, bits), k=min(per_case, len(sample_ns(chk.rng, bits)))):
            lines.append(f'plural eval {bits} {n} {pre}')
            outs.append(impl_eval(ex, bits, n))
    return chk.stream('plural-eval', lines, outs)

def stream_codomain(chk, cases):
    lines = [f'plural codomain {bits} {G.to_prefix(e)}' for e, ex, bits in cases]
    outs = [impl_optpair(lambda ex=ex, bits=bits: ex.codomain(bits=bits)) for e, ex, bits in cases]
    return chk.stream('plural-codomain', lines, outs)

def stream_period(chk, cases):
    lines = [f'plural period {bits} {G.to_prefix(e)}' for e, ex, bits in cases]
    outs = [impl_optpair(lambda ex=ex, bits=bits: ex.period(bits=bits)) for e, ex, bits in cases]
    return chk.stream('plural-period', lines, outs)

def stream_gcd_lcm(chk, count):
    from lib import intexpr
    rng = chk.rng
    lines, outs = [], []
    for _ in range(count):
        x = rng.choice([0, 1, 2, 3, 6, 10, 12, 100, rng.randrange(1 << 16), rng.randrange(1 << 33)])
        y = rng.choice([0, 1, 2, 3, 4, 10, 18, 100, rng.randrange(1 << 16), rng.randrange(1 << 33)])
        lines.append(f'plural gcd {x} {y}')
        outs.append(impl_optint(lambda: intexpr.gcd(x, y)))
        xs = [rng.choice([1, 2, 3, 4, 6, 10, 100, rng.randrange(1, 1 << 12)]) for _ in range(rng.randint(1, 3))]
        lines.append('plural lcm ' + ' '.join(map(str, xs)))
        outs.append(impl_optint(lambda: intexpr.lcm(*xs)))
    return chk.stream('plural-gcd-lcm', lines, outs)

def impl_optint(fn):
    try:
        return f'ok {fn()}'
    except Exception as exc:
        return canon_exc(exc)

# ------------------------------------------------------------------ falsifiers on the REAL code

def outcome(ex, n, bits):
    try:
        return ex(n, bits=bits)
    except (OverflowError, ZeroDivisionError):
        return None

def falsify_codomain(chk, budget, max_bits=5):
    """C05 on the real code: all n < 2^b for small b.  Returns a replay dict or None."""
    rng = chk.rng
    tried = 0
    by_size_cache = {}
    def candidates():
        # exhaustive small scope first, then random deeper expressions
        for bits in range(0, max_bits + 1):
            m = 1 << bits
            consts = sorted({0, 1, 2, 3, m - 1, m})
            for s, es in G.enum_exprs(3 if bits > 2 else 4, consts[:5] if bits > 2 else consts).items():
                for e in es:
                    yield e, bits
        while True:
            bits = rng.randint(0, max_bits)
            yield G.gen_expr(rng, rng.randint(2, 5), G.boundary_consts(bits)), bits
    for e, bits in candidates():
        if tried >= budget:
            break
        tried += 1
        ex = real_parse(G.render_full(e))
        try:
            cd = ex.codomain(bits=bits)
        except Exception as exc:
            return {'kind': 'codomain-crash', 'expr': G.render_full(e), 'bits': bits, 'exception': repr(exc),
                    'replay': f"lib.gettext.parse_plural_expression({G.render_full(e)!r}).codomain(bits={bits})"}, tried
        vals = [outcome(ex, n, bits) for n in range(1 << bits)]
        good = [v for v in vals if v is not None]
        if cd is None:
            if good:
                n = next(i for i, v in enumerate(vals) if v is not None)
                return {'kind': 'codomain-none-but-succeeds', 'expr': G.render_full(e), 'bits': bits, 'n': n, 'value': vals[n],
                        'replay': f"e=lib.gettext.parse_plural_expression({G.render_full(e)!r}); e.codomain(bits={bits}) is None and e({n}, bits={bits})"}, tried
        else:
            L, R = cd
            for n, v in enumerate(vals):
                if v is not None and not (L <= v <= R):
                    return {'kind': 'codomain-unsound', 'expr': G.render_full(e), 'bits': bits, 'n': n, 'value': v, 'codomain': [int(L), int(R)],
                            'replay': f"e=lib.gettext.parse_plural_expression({G.render_full(e)!r}); e.codomain(bits={bits}), e({n}, bits={bits})"}, tried
    return None, tried

def falsify_period(chk, budget, max_bits=6):
    rng = chk.rng
    tried = 0
    def candidates():
        for bits in range(0, 5):
            m = 1 << bits
            consts = sorted({0, 1, 2, 3, m - 1, m})
            for s, es in G.enum_exprs(3 if bits > 2 else 4, consts[:5] if bits > 2 else consts).items():
                for e in es:
                    yield e, bits
        while True:
            bits = rng.randint(0, max_bits)
            yield G.gen_expr(rng, rng.randint(2, 5), G.boundary_consts(bits), pmod=0.4), bits
    for e, bits in candidates():
        if tried >= budget:
            break
        tried += 1
        ex = real_parse(G.render_full(e))
        try:
            pr = ex.period(bits=bits)
        except Exception as exc:
            return {'kind': 'period-crash', 'expr': G.render_full(e), 'bits': bits, 'exception': repr(exc),
                    'replay': f"lib.gettext.parse_plural_expression({G.render_full(e)!r}).period(bits={bits})"}, tried
        if pr is None:
            continue
        O, P = pr
        m = 1 << bits
        if P <= 0 or O < 0:
            return {'kind': 'period-degenerate', 'expr': G.render_full(e), 'bits': bits, 'period': [O, P]}, tried
        vals = [outcome(ex, n, bits) for n in range(m)]
        for n in range(O, m - P):
            if vals[n] != vals[n + P]:
                return {'kind': 'period-unsound', 'expr': G.render_full(e), 'bits': bits, 'n': n, 'period': [int(O), int(P)],
                        'outcomes': [vals[n], vals[n + P]],
                        'replay': f"e=lib.gettext.parse_plural_expression({G.render_full(e)!r}); e.period(bits={bits}), e({n}, bits={bits}), e({n + P}, bits={bits})"}, tried
    return None, tried

def falsify_period_32(chk, budget):
    """windows around O and around 2^32 - P at the width the tool uses"""
    rng = chk.rng
    tried = 0
    m = 1 << 32
    while tried < budget:
        tried += 1
        e = G.gen_expr(rng, rng.randint(2, 5), [0, 1, 2, 3, 4, 5, 10, 11, 20, 100, 1000, m - 1, m - 2, 65536, 65537], pmod=0.45)
        ex = real_parse(G.render_full(e))
        try:
            pr = ex.period(bits=32)
        except Exception as exc:
            return {'kind': 'period-crash', 'expr': G.render_full(e), 'bits': 32, 'exception': repr(exc)}, tried
        if pr is None:
            continue
        O, P = pr
        pts = set(range(O, min(O + 40, m - P)))
        pts |= set(range(max(O, m - P - 40), m - P))
        for _ in range(20):
            if m - P > O:
                pts.add(rng.randrange(O, m - P))
        for n in sorted(pts):
            if outcome(ex, n, 32) != outcome(ex, n + P, 32):
                return {'kind': 'period-unsound', 'expr': G.render_full(e), 'bits': 32, 'n': n, 'period': [int(O), int(P)],
                        'replay': f"e=lib.gettext.parse_plural_expression({G.render_full(e)!r}); e.period(), e({n}), e({n + P})"}, tried
    return None, tried
