#!/venv/bin/python
"""C03 — output is a deterministic function of each file, independent of run context.

proof side   Props/C03.lean over (i) the model of check_all / main with explicit global state, (ii) the hash-order model,
             (iii) the inventories regenerated from the source on every run (tools/translate/state2lean.py).
tie          * pins on the regenerated inventories (kinds, not text)
             * correspondence `check_all`: the REAL cli.check_all (sequential / ProcessPoolExecutor + real check_file_s) around a stub
               check_file, against the Lean model `Cli.checkAll` (native driver), for job counts and completion orders
falsifier    the real CLI in subprocesses: hash seeds, repeated runs, file lists that interleave charsets / formats / flags, rotations,
             sub-lists, option sets, -j with uneven sizes; and the real main() with check_all called several times in ONE process
             (same paths with other contents, other orders, -j), each compared with fresh single-file runs.
"""
import base64, json, os, subprocess, sys
sys.path.insert(0, os.path.join(os.path.dirname(os.path.abspath(__file__)), '..'))
sys.path.insert(0, os.path.join(os.path.dirname(os.path.abspath(__file__)), '..', 'translate'))
import common
import e2e_common as E
from gen import catalog as CAT

WORKERS = 4
HERE = os.path.dirname(os.path.abspath(__file__))

# ------------------------------------------------------------------------------------------------ files

def build_files(chk, wd, n_gen, n_corpus):
    """-> [(relative path, class label)]; the classes are what the lists interleave"""
    rng = chk.rng
    files = []
    def add(name, data, cls):
        files.append((os.path.relpath(wd.write(name, data), wd.path), cls))
    # witness of the repaired finding C03:pybrace-type-set-order (', '.join(frozenset)): always present
    add('corpus/hashorder.po', 'msgid ""\nmsgstr ""\n"Content-Type: text/plain; charset=UTF-8\\n"\n\n#, python-brace-format\nmsgid "{0:n}"\nmsgstr "{0:s}"\n', 'flags')
    # cross-file state: the same escaped / raw text under different declared charsets; the same unusual character, the same msgid and
    # the same header defect in several files (each file must be judged on its own)
    hdr = lambda cs: ('msgid ""\nmsgstr ""\n"Project-Id-Version: x 1\\n"\n"Language: de\\n"\n"Content-Type: text/plain; charset=%s\\n"\n\n' % cs).encode()
    body = (b'msgid "price in \\xa4"\nmsgstr "Preis in \\xa4\\n"\n\nmsgid "cost \\244"\nmsgstr "Kosten \\244\\n"\n\nmsgid "raw \xa4"\nmsgstr "roh \xa4\\n"\n\n'
            b'msgid "bell"\nmsgstr "Glocke\\a\xbf"\n\nmsgid "bell"\nmsgstr "x"\n')
    for cs in ('ISO-8859-1', 'ISO-8859-15', 'ISO-8859-2', 'KOI8-R', 'CP1252', 'ISO-8859-1', 'KOI8-RU', 'ISO-8859-16'):
        add(f'cs/{len(files)}-{cs}/de.po', hdr(cs) + body, 'cs:' + cs)
    # several format flags on one message, each checker with something to say (order of the checkers)
    fl = ['c-format', 'python-format', 'python-brace-format', 'perl-brace-format']
    two = 'msgid ""\nmsgstr ""\n"Content-Type: text/plain; charset=UTF-8\\n"\n\n'
    k = 0
    for a in fl:
        for b in fl:
            if a < b:
                k += 1
                two += f'#, {a}, {b}\nmsgid "%s items {{a}} {k}"\nmsgstr "%d Elemente {{b}} %(x)s"\n\n'
    two += '#, ' + ', '.join(fl) + '\nmsgid "%s all {a}"\nmsgstr "%d alle {b}"\n\n#, ' + ', '.join(reversed(fl)) + '\nmsgid "%s all {a} 2"\nmsgid_plural "%s alls {a}"\nmsgstr[0] "%d {b}"\nmsgstr[1] "%d {c}"\n'
    add('corpus/multiflag.po', two, 'flags')
    # sets with several elements at every site that prints one: type sets, missing/unknown argument sets, duplicated header fields,
    # unusual characters, unknown header fields close to known ones, conflicting / redundant flags
    many = ('msgid ""\nmsgstr ""\n"Project-Id-Version: a 1\\n"\n"Project-Id-Version: b 1\\n"\n"Project-Id-Version: c 1\\n"\n"Language: de\\n"\n"Language: fr\\n"\n"Language: pl\\n"\n'
            '"MIME-Version: 1.0\\n"\n"MIME-Version: 1.1\\n"\n"MIME-Version: 2\\n"\n"Content-Type: text/plain; charset=UTF-8\\n"\n"Content-Type: text/plain; charset=utf8\\n"\n'
            '"Content-Transfer-Encoding: 8bit\\n"\n"Content-Transfer-Encoding: 7bit\\n"\n"Content-Transfer-Encoding: binary\\n"\n'
            '"Plural-Forms: nplurals=2; plural=n != 1;\\n"\n"Plural-Forms: nplurals=3; plural=n%3;\\n"\n"Plural-Forms: nplurals=1; plural=0;\\n"\n'
            '"PO-Revision-Date: 2012-11-01 14:42+0100\\n"\n"PO-Revision-Date: 2013-11-01 14:42+0100\\n"\n"PO-Revision-Date: 2014-11-01 14:42+0100\\n"\n'
            '"Last-Translator: A <a@example.org>\\n"\n"Last-Translator: B <b@example.org>\\n"\n"Last-Translator: C <c@example.org>\\n"\n'
            '"Language-Team: X <x@example.org>\\n"\n"Language-Team: Y <y@example.org>\\n"\n"Language-Team: Z <z@example.org>\\n"\n'
            '"Report-Msgid-Bugs-To: q@example.org\\n"\n"Report-Msgid-Bugs-To: r@example.org\\n"\n"Report-Msgid-Bugs-To: s@example.org\\n"\n'
            '"X-Poedit-Language: German\\n"\n"X-Poedit-Language: French\\n"\n"X-Poedit-Language: Polish\\n"\n"X-Poedit-Country: GERMANY\\n"\n"X-Poedit-Country: FRANCE\\n"\n'
            '"Langauge: de\\n"\n"Plural-Form: x\\n"\n"Content-Typ: y\\n"\n"Mime-Version: 1.0\\n"\n"Last-Translators: z\\n"\n"Foo: \\a\\b\\v\\f\\177\\n"\n\n'
            '#, python-brace-format\nmsgid "{0:d} {1:s} {a:f} {b} {c} {d}"\nmsgstr "{0:s} {1:d} {a:s} {x} {y} {z}"\n\n'
            '#, python-format\nmsgid "%(a)s %(b)d %(c)f %(d)s"\nmsgstr "%(a)d %(b)s %(x)s %(y)s %(z)s"\n\n'
            '#, perl-brace-format\nmsgid "{a} {b} {c} {d}"\nmsgstr "{x} {y} {z} {w}"\n\n'
            '#, c-format, no-c-format, python-format, no-python-format, possible-c-format, possible-python-format, range: 1..2, range: 3..4, wrap, no-wrap\nmsgid "%d %s"\nmsgstr "%s %d"\n\n'
            'msgid "uc"\nmsgstr "\\a\\b\\v\\f\\177 x\xc2\x80\xc2\x81"\n').encode('latin-1')
    add('corpus/manysets.po', many, 'flags')
    # language NAMES (not codes) in lists: ling.get_language_for_name collects the matching languages in a set — whatever it
    # returns for several matches must not depend on the hash seed (seeded X4-a: set.pop() of several candidates)
    for i, (field, value) in enumerate([('Language', 'Polish, German'), ('Language', 'German, Polish, French, Czech'), ('Language', 'Pashto, Pushto'),
                                        ('Language', 'German; French'), ('X-Poedit-Language', 'Polish, German'), ('Language', 'Serbian, Croatian, Bosnian, Slovenian, Slovak'),
                                        ('Language', 'English, French, German, Italian, Spanish, Portuguese, Dutch, Swedish')]):
        add(f'corpus/langnames{i}.po', ('msgid ""\nmsgstr ""\n"Project-Id-Version: x 1\\n"\n"%s: %s\\n"\n"Content-Type: text/plain; charset=UTF-8\\n"\n\n'
                                         'msgid "a"\nmsgstr "b"\n' % (field, value)).encode(), 'flags')
    # XML fragments (lib/xml.py draws a random entity name at import: repeated runs must agree)
    xml = ('msgid ""\nmsgstr ""\n"Content-Type: text/plain; charset=UTF-8\\n"\n\n#. type: Content of: <para>\nmsgid "<b>bold</b>"\nmsgstr "<b>fett</i>"\n\n'
           '#. type: Content of: <para><title>\nmsgid "a &amp; b"\nmsgstr "a & b <unclosed>"\n\n#. type: Content of: <x>\nmsgid "ok"\nmsgstr "<a b=c>"\n')
    add('corpus/xmlfrag.po', xml, 'xml')
    # language taken from the path (LC_MESSAGES), plural forms of several shapes (the lexer / parser caches are shared by all files)
    for i, (lang, pf) in enumerate([('de', 'nplurals=2; plural=n != 1;'), ('pl', 'nplurals=3; plural=n==1 ? 0 : n%10>=2 && n%10<=4 && (n%100<10 || n%100>=20) ? 1 : 2;'),
                                    ('ja', 'nplurals=1; plural=0;'), ('fr', 'nplurals=2; plural=n > 1;'), ('ar', 'nplurals=6; plural=n==0 ? 0 : n==1 ? 1 : n==2 ? 2 : n%100>=3 && n%100<=10 ? 3 : n%100>=11 ? 4 : 5;'),
                                    ('xx', 'nplurals=2; plural=n/0;'), ('cs', 'nplurals=3; plural=(n==1) ? 0 : (n>=2 && n<=4) ? 1 : 2;'), ('de', 'nplurals=2; plural=(n != 1')]):
        text = ('msgid ""\nmsgstr ""\n"Project-Id-Version: p 1\\n"\n"Content-Type: text/plain; charset=UTF-8\\n"\n"Plural-Forms: %s\\n"\n\n'
                '#, c-format\nmsgid "%%d file"\nmsgid_plural "%%d files"\nmsgstr[0] "%%d a"\nmsgstr[1] "b"\n' % pf)
        add(f'loc{i}/{lang}/LC_MESSAGES/app.po', text, 'plural')
    # NEAR-TWIN families: files that differ in exactly ONE dimension (language modifier, territory, charset, plural forms, template or
    # not, header flag, one escaped byte): whatever a cache or registry is keyed on, two members agree on the key and differ in the answer
    def twin(lang='sr', charset='ISO-8859-2', pf='nplurals=3; plural=n%10==1 && n%100!=11 ? 0 : n%10>=2 && n%10<=4 && (n%100<10 || n%100>=20) ? 1 : 2;',
             fuzzy=False, body='msgid "one"\nmsgstr "jedan \\251"\n\n#, c-format\nmsgid "%d file"\nmsgid_plural "%d files"\nmsgstr[0] "%d a"\nmsgstr[1] "%d b"\nmsgstr[2] "%d c"\n'):
        return (('#, fuzzy\n' if fuzzy else '') + 'msgid ""\nmsgstr ""\n"Project-Id-Version: twin 1\\n"\n"Report-Msgid-Bugs-To: t@example.org\\n"\n'
                '"POT-Creation-Date: 2012-11-01 14:42+0100\\n"\n"PO-Revision-Date: 2012-11-01 14:42+0100\\n"\n"Last-Translator: T <t@example.org>\\n"\n'
                '"Language-Team: T <tt@example.org>\\n"\n' + ('"Language: %s\\n"\n' % lang if lang else '') +
                '"MIME-Version: 1.0\\n"\n"Content-Type: text/plain; charset=%s\\n"\n"Content-Transfer-Encoding: 8bit\\n"\n' % charset +
                ('"Plural-Forms: %s\\n"\n' % pf if pf else '') + '\n' + body)
    families = {
        'modifier': [twin(lang=l) for l in ('sr', 'sr@latin', 'sr@ijekavianlatin', 'sr_RS', 'sr_RS@latin', 'sr')],
        'modifier2': [twin(lang=l, charset='ISO-8859-1', pf='nplurals=2; plural=n != 1;') for l in ('en', 'en@quot', 'en@boldquot', 'en_GB', 'en@shaw')],
        'modifier3': [twin(lang=l, charset='KOI8-R', pf='nplurals=1; plural=0;') for l in ('uz', 'uz@cyrillic', 'tt', 'tt@iqtelif')],
        'charset': [twin(lang='sr@latin', charset=c) for c in ('ISO-8859-2', 'ISO-8859-5', 'UTF-8', 'ISO-8859-1', 'CP1250', 'ISO-8859-16')],
        'plural': [twin(pf=f) for f in ('nplurals=3; plural=n%10==1 && n%100!=11 ? 0 : n%10>=2 && n%10<=4 && (n%100<10 || n%100>=20) ? 1 : 2;', 'nplurals=3; plural=n%3;',
                                        'nplurals=2; plural=n != 1;', 'nplurals=3; plural=n%10==1 && n%100!=11 ? 0 : n%10>=2 && n%10<=4 && (n%100<10 || n%100>=20) ? 1 : 2', None)],
        'fuzzy': [twin(fuzzy=False), twin(fuzzy=True)],
        'escape': [twin(body='msgid "a \\xa9 b"\nmsgstr "c \\xa9 d\\n"\n', charset=c) for c in ('ISO-8859-2', 'ISO-8859-5', 'ISO-8859-1', 'KOI8-R')],
    }
    for fam, members in families.items():
        for i, text in enumerate(members):
            add(f'twin/{fam}/{i}/app.po', text.encode('ascii'), 'twin:' + fam)
    # the same bytes as PO, as POT (template) and as MO (other parser): twins in the file-type dimension
    base = twin(lang='sr@latin', charset='UTF-8').encode('ascii')
    add('twin/type/a/x.po', base, 'twin:type')
    add('twin/type/a/x.pot', base, 'twin:type')
    try:
        CAT.compile_mo(os.path.join(wd.path, 'twin/type/a/x.po'), os.path.join(wd.path, 'twin/type/a/x.mo'))
        files.append(('twin/type/a/x.mo', 'twin:type'))
    except Exception:
        pass
    # files that are not gettext files (unknown-file-type), and a Debian package for --unpack-deb (C17 owns check_deb; here it is one more file)
    add('misc/readme.txt', 'hello\n', 'other')
    add('misc/data.bin', b'\x00\x01\x02', 'other')
    add('misc/noext', 'msgid ""\nmsgstr ""\n', 'other')
    gen_paths = []
    for i in range(n_gen):
        text, ext = CAT.gen_po(rng)
        add(f'gen/f{i:03d}{ext}', text, 'pot' if ext == '.pot' else 'gen')
        gen_paths.append(files[-1][0])
    # binary catalogues of some of them (other constructor, other parser, same checks)
    n_mo = 0
    for rel in gen_paths:
        if n_mo >= max(4, n_gen // 5) or not rel.endswith('.po'):
            continue
        try:
            CAT.compile_mo(os.path.join(wd.path, rel), os.path.join(wd.path, rel[:-3] + '.mo'))
        except Exception:
            continue
        files.append((rel[:-3] + '.mo', 'mo'))
        n_mo += 1
    corpus = CAT.corpus(common.REPO)
    rng.shuffle(corpus)
    for name, data in corpus[:n_corpus]:
        add('bb/' + name, data, 'mo' if name.endswith(('.mo', '.gmo')) else 'corpus')
    # big files, so that with -j their completion comes after that of later small ones
    for name, n in (('gen/big.po', 1500), ('gen/big2.po', 700)):
        big = ''.join(CAT.gen_po(rng)[0] if k == 0 else '\nmsgid "m%d %%s"\nmsgstr "t%d"\n' % (k, k) for k in range(n))
        add(name, big, 'big')
    return files

def build_deb(wd):
    """a binary package with one PO file that has something to report and two files that are not gettext files; None without dpkg-deb"""
    import shutil
    if not shutil.which('dpkg-deb'):
        return None
    root = os.path.join(wd.path, 'debroot')
    wd.write('debroot/DEBIAN/control', 'Package: gizmo\nVersion: 1\nArchitecture: all\nMaintainer: T <t@example.org>\nDescription: test\n')
    wd.write('debroot/usr/share/locale/de/LC_MESSAGES/gizmo.po', 'msgid ""\nmsgstr ""\n"Content-Type: text/plain; charset=UTF-8\\n"\n\n#, c-format\nmsgid "%d files"\nmsgstr "%s Dateien"\n')
    wd.write('debroot/usr/share/doc/gizmo/README', 'not a catalogue\n')
    try:
        p = subprocess.run(['dpkg-deb', '--root-owner-group', '-b', root, os.path.join(wd.path, 'misc', 'gizmo.deb')], capture_output=True, timeout=60)
    except Exception:
        return None
    return 'misc/gizmo.deb' if p.returncode == 0 else None

def interleave(files, rng):
    """round-robin over the classes: neighbours differ in charset / format / file type"""
    groups = {}
    for f, c in files:
        groups.setdefault(c, []).append(f)
    keys = sorted(groups)
    rng.shuffle(keys)
    for k in keys:
        rng.shuffle(groups[k])
    out = []
    while any(groups.values()):
        for k in keys:
            if groups[k]:
                out.append(groups[k].pop())
    return out

# ------------------------------------------------------------------------------------------------ helper process

def probe(mode, plan, timeout=600):
    p = subprocess.run([common.PY, os.path.join(HERE, 'c03_probe.py'), common.REPO, mode], input=json.dumps(plan), capture_output=True, text=True, timeout=timeout,
                       env=dict(os.environ, PYTHONHASHSEED='0', PYTHONDONTWRITEBYTECODE='1', LC_ALL='C.UTF-8'))
    try:
        return json.loads(p.stdout)
    except ValueError:
        return {'fatal': (p.stdout[-500:] + p.stderr[-1500:])}

def driver_correspondence(chk):
    """real cli.check_all around a stub check_file  vs  the Lean model Cli.checkAll"""
    rng = chk.rng
    cases = []
    shapes = [(0, 1), (1, 1), (1, 4), (2, 1), (2, 2), (3, 2), (4, 4), (5, 2), (5, 3), (6, 6), (3, 1), (4, 3)]
    if chk.thorough:
        shapes += [(n, j) for n in (2, 3, 5, 7, 8) for j in (2, 3, 8)]
    for n, j in shapes:
        toks = [f't{n}x{j}f{i}' for i in range(n)]
        kind = rng.choice(['reverse', 'reverse', 'random', 'forward'])
        if kind == 'reverse':
            delays = [25 * (n - 1 - i) for i in range(n)]
        elif kind == 'forward':
            delays = [25 * i for i in range(n)]
        else:
            delays = [25 * k for k in rng.sample(range(n), n)]
        cases.append({'tokens': toks, 'delays': delays, 'jobs': j})
    res = probe('driver', {'cases': cases})
    lines, impl, meta = [], [], []
    if 'fatal' in res:
        chk.broken.append({'kind': 'correspondence', 'stream': 'check_all', 'problem': res['fatal'][-800:]})
        return
    for case, r in zip(cases, res['cases']):
        order = sorted(range(len(case['tokens'])), key=lambda i: (case['delays'][i], i))     # expected completion order with enough workers
        sched = '.'.join(str(i) for i in order) or '-'
        lines.append(' '.join(['cli', 'checkall', str(case['jobs']), sched] + case['tokens']))
        impl.append('ok ' + ','.join(r['lines']) if not r['error'] else 'err ' + r['error'].split(':')[0])
        meta.append((case, r))
    dis, model = chk.stream('check_all', lines, impl)
    for i in dis:
        case, r = meta[i]
        # the property's own statement on this input: the tokens must come out in argument order
        if r['error'] or r['lines'] != case['tokens']:
            chk.violation('check_all does not write the per-file outputs in argument order', {
                'kind': 'check_all-order', 'files': case['tokens'], 'sleep_ms_per_file': case['delays'], 'jobs': case['jobs'],
                'expected_stdout_lines': case['tokens'], 'got_stdout_lines': r['lines'], 'error': r['error'],
                'replay': f"echo '{json.dumps({'cases': [case]})}' | {common.PY} tools/checks/c03_probe.py {common.REPO} driver"})
            return

def run_cli_pty(args, cwd, term, hashseed='0', timeout=60):
    """the real CLI with stdout = the slave side of a pseudo-terminal (stderr to a file); -> bytes read from the master side"""
    import pty, select, tempfile, time
    master, slave = pty.openpty()
    env = dict(os.environ, PYTHONHASHSEED=str(hashseed), PYTHONDONTWRITEBYTECODE='1', XDG_CACHE_HOME=os.path.join(cwd, '.cache'), LC_ALL='C.UTF-8', TERM=term)
    env.pop('PYTHONIOENCODING', None)
    with tempfile.TemporaryFile() as errf:
        try:
            p = subprocess.Popen(E.cli_cmd() + list(args), cwd=cwd, env=env, stdin=subprocess.DEVNULL, stdout=slave, stderr=errf, close_fds=True)
        finally:
            os.close(slave)
        chunks, deadline, timed_out = [], time.time() + timeout, False
        while True:
            left = deadline - time.time()
            if left <= 0:
                timed_out = True
                p.kill()
                break
            r, _w, _x = select.select([master], [], [], min(left, 1.0))
            if not r:
                if p.poll() is not None:
                    # the child is gone and nothing is pending
                    r, _w, _x = select.select([master], [], [], 0)
                    if not r:
                        break
                continue
            try:
                data = os.read(master, 65536)
            except OSError:          # EIO: every slave descriptor is closed
                break
            if not data:
                break
            chunks.append(data)
        os.close(master)
        try:
            rc = p.wait(timeout=10)
        except subprocess.TimeoutExpired:
            p.kill()
            rc = None
        errf.seek(0)
        err = errf.read().decode('utf-8', 'backslashreplace')
    return {'rc': rc, 'stdout': b''.join(chunks), 'stderr': err, 'timeout': timed_out}

def terminal_runs(chk, wd, stable, cls, found, suspects):
    """the KIND OF STDOUT as one more dimension of 'for every -j': a pseudo-terminal with several TERM values, and a pipe with several
    PYTHONIOENCODING values (initialize_terminal reconfigures stdout).  Always compared on the same kind of stdout, byte for byte."""
    rng = chk.rng
    content = lambda f: open(os.path.join(wd.path, f), 'rb').read().decode('utf-8', 'replace')
    pick = [f for f in stable if cls[f] in ('flags', 'xml')][:4] + [f for f in stable if cls[f].startswith('cs:')][:1]
    stats = {'pty_runs': 0, 'pipe_runs': 0, 'coloured_outputs': 0, 'terms': [], 'encodings': []}
    # 1. pseudo-terminal
    terms = ['ansi', 'xterm', 'dumb', 'linux'] if chk.thorough else ['ansi', 'xterm', 'dumb']
    plan = []
    for term in terms:
        js = ['1', '2', '3'] if term != 'dumb' or chk.thorough else ['2']
        plan += [(term, None, [f]) for f in pick] + [(term, j, pick) for j in js]
    outs = E.parallel(lambda r: run_cli_pty((['-j', r[1]] if r[1] else []) + r[2], wd.path, r[0]), plan, workers=WORKERS)
    stats['pty_runs'] = len(plan)
    stats['terms'] = terms
    chk.evaluations += len(plan)
    single = {(term, fl[0]): o for (term, j, fl), o in zip(plan, outs) if j is None}
    stats['coloured_outputs'] = sum(1 for o in outs if b'\x1b[' in o['stdout'])
    for (term, j, fl), o in zip(plan, outs):
        if j is None:
            continue
        if any(single[(term, f)]['rc'] != 0 or single[(term, f)]['timeout'] for f in fl):
            continue
        exp = b''.join(single[(term, f)]['stdout'] for f in fl)
        if o['stdout'] != exp or o['rc'] != 0:
            k = next((i for i in range(min(len(exp), len(o['stdout']))) if exp[i] != o['stdout'][i]), min(len(exp), len(o['stdout'])))
            found.append({'kind': 'terminal', 'stdout_is': 'pseudo-terminal (pty.openpty, slave side)', 'TERM': term, 'argv': ['i18nspector', '-j', j] + fl,
                          'files': fl, 'contents': [content(f)[:1500] for f in fl],
                          'expected_concatenation_of_single_file_runs_on_the_same_terminal': repr(exp[max(0, k - 80):k + 200]),
                          'got': repr(o['stdout'][max(0, k - 80):k + 200]), 'first_differing_byte': k, 'rc': o['rc'], 'stderr': o['stderr'][-400:],
                          'replay': 'python3 -c "import pty,os,sys; pty.spawn(sys.argv[1:])" env TERM=%s %s %s -j %s %s  (in a directory with the files)' %
                                    (term, common.PY, os.path.join(common.REPO, 'i18nspector'), j, ' '.join(fl)),
                          'suspect_sites': suspects[:8]})
            break
    # 2. pipe, several stdout encodings / error handlers
    encs = ['ascii', 'latin-1:strict', 'utf-8', 'utf-8:surrogateescape', 'ascii:replace'] if chk.thorough else ['ascii', 'latin-1:strict', 'utf-8']
    pick2 = [f for f in stable if cls[f].startswith('cs:')][:2] + [f for f in stable if cls[f] == 'flags'][:2]
    plan = []
    for enc in encs:
        plan += [(enc, None, [f]) for f in pick2] + [(enc, j, pick2) for j in ('1', '2')]
    outs = E.parallel(lambda r: E.run_cli((['-j', r[1]] if r[1] else []) + r[2], wd.path, hashseed='0', extra_env={'PYTHONIOENCODING': r[0]}), plan, workers=WORKERS)
    stats['pipe_runs'] = len(plan)
    stats['encodings'] = encs
    chk.evaluations += len(plan)
    single = {(enc, fl[0]): o for (enc, j, fl), o in zip(plan, outs) if j is None}
    for (enc, j, fl), o in zip(plan, outs):
        if j is None or any(single[(enc, f)]['rc'] != 0 for f in fl):
            continue
        exp = ''.join(single[(enc, f)]['stdout'] for f in fl)
        if o['stdout'] != exp or o['rc'] != 0:
            found.append({'kind': 'stdout-encoding', 'stdout_is': 'pipe', 'PYTHONIOENCODING': enc, 'argv': ['i18nspector', '-j', j] + fl, 'files': fl,
                          'contents': [content(f)[:1500] for f in fl], 'expected': exp[:1500], 'got': o['stdout'][:1500], 'rc': o['rc'], 'stderr': o['stderr'][-400:],
                          'suspect_sites': suspects[:8]})
            break
    chk.coverage['terminal'] = stats

def cache_correspondence(chk):
    """the cache model of Model/CliState.lean against a REAL functools.lru_cache inside the REAL check_all (stub check_file decoding texts
    through one memoised function): keyed on all inputs (any job count) and keyed on less (sequential: the stale values are deterministic);
    and the once-flag of Checker.patch_environment against the real class, one fresh process per sequence"""
    rng = chk.rng
    cases = []
    css = ['L1', 'L9', 'L2', 'K8']
    texts = ['a', 'b', 'c', 'd']
    for k in range(40 if chk.thorough else 14):
        n = rng.randint(1, 6)
        specs = [rng.choice(css) + '/' + '+'.join(rng.choice(texts) for _ in range(rng.randint(1, 3))) for _ in range(n)]
        mode = 'lossy' if k % 2 == 0 else 'full'
        cases.append({'mode': mode, 'jobs': 1 if mode == 'lossy' else rng.choice([1, 2, 3]), 'specs': specs})
    res = probe('cache', {'cases': cases})
    if 'fatal' in res:
        chk.broken.append({'kind': 'correspondence', 'stream': 'lru_cache', 'problem': res['fatal'][-800:]})
    else:
        lines = [' '.join(['cli', 'seqcache', c['mode'], str(c['jobs']), '.'.join(f'{i}:{i % max(c["jobs"], 1)}' for i in range(len(c['specs']))) or '-'] + c['specs']) for c in cases]
        impl = ['ok ' + ','.join(r['lines']) if not r['error'] else 'err ' + r['error'].split(':')[0] for r in res['cases']]
        chk.stream('lru_cache', lines, impl)
        fresh_values = lambda c: [f"{sp.split('/')[0]}:{t}" for sp in c['specs'] for t in sp.split('/')[1].split('+')]
        chk.coverage['lru_cache_cases_with_stale_value'] = sum(1 for c, r in zip(cases, res['cases']) if c['mode'] == 'lossy' and r['lines'] != fresh_values(c))
    seqs = ['c', 'p', 'pc', 'pp', 'cpc', 'ppc', 'pcc', 'cpp', 'pcpc']
    outs = E.parallel(lambda ops: probe('patch', {'ops': ops}, timeout=60), seqs, workers=WORKERS)
    lines = ['cli patchseq ' + ops for ops in seqs]
    impl = [','.join(o['outcomes']) if 'outcomes' in o else 'err ' + str(o.get('fatal'))[-200:] for o in outs]
    chk.stream('patch_environment', lines, impl)

# ------------------------------------------------------------------------------------------------ main

def main():
    chk = common.Check('C03')
    import time
    timing, t_last = {}, [time.time()]
    def tick(name):
        now = time.time()
        timing[name] = round(timing.get(name, 0) + now - t_last[0], 1)
        t_last[0] = now
    chk.prove('I18n.Props.C03', generated=('state',))
    tick('lean')
    rng = chk.rng
    pins_broken = bool(chk.broken)
    # the static scan again, in-process: search aid and coverage accounting (never a verdict by itself)
    scan_sites = None
    try:
        import statescan as S
        sc = S.Scan(common.REPO)
        scan_sites = {'state': S.StateInventory(sc).sites, 'iter': S.IterInventory(sc).sites, 'mut': S.MutInventory(sc), 'nondet': S.NondetInventory(sc).sites}
    except Exception as exc:
        chk.coverage['inventory_error'] = f'{type(exc).__name__}: {exc}'
    suspects = []
    if scan_sites:
        suspects += [s['key'] + ' [' + s['kind'] + ']' for s in scan_sites['state'] if s['kind'] in ('perFileMutated', 'impureCache', 'patchPerFile', 'mutableDefaultWritten', 'unknown')]
        suspects += [s['key'] + ' [unsorted: ' + s['consumer'] + ']' for s in scan_sites['iter'] if s['verdict'] == 'unsorted']
        suspects += [s['key'] + ' [' + s['root'] + ']' for s in scan_sites['mut'].sites if s['root'] not in ('localFresh', 'closure', 'selfAttr', 'perCallParam', 'element')]
        suspects += [c['key'] + ' [' + c['role'] + ' not per call]' for c in scan_sites['mut'].creations if not c['perCall']]
        suspects += [s['key'] + ' [nondeterminism: ' + s['kind'] + ']' for s in scan_sites['nondet'] if s['kind'] in ('other', 'terminalProbePerFile')]
    tick('scan')
    driver_correspondence(chk)
    cache_correspondence(chk)
    tick('correspondence_streams')
    n_gen, n_corpus = (120, 120) if chk.thorough else (24, 20)
    found = []
    with E.Workdir() as wd:
        classed = build_files(chk, wd, n_gen, n_corpus)
        files = [f for f, _c in classed]
        cls = dict(classed)
        content = lambda f: open(os.path.join(wd.path, f), 'rb').read().decode('utf-8', 'replace')
        # 1. single-file reference runs (PYTHONHASHSEED=0, -j 1, fresh process each)
        ref = dict(zip(files, E.parallel(lambda f: E.run_cli([f], wd.path, hashseed='0'), files, workers=WORKERS)))
        chk.evaluations += len(files)
        tick('reference_runs')
        nontrivial = {f for f, r in ref.items() if r['stdout'].strip()}
        chk.note_cases(nontrivial)
        bad_ref = [f for f, r in ref.items() if r['rc'] != 0 or r['stderr']]
        # crashes are C01's business; a crashing file is excluded from the comparisons
        stable = [f for f in files if f not in bad_ref]
        def expect(flist, table=None):
            return ''.join((table or ref)[f]['stdout'] for f in flist)
        # 2. repeated runs and hash seeds, single file (escalated when a pin is broken: the falsifier needs the seed pair)
        seeds = ['1', '2', '3', '4', '5', '6', '7', '12345'] if chk.thorough else ['1', '2', '3', '7']
        if pins_broken:
            seeds = [str(s) for s in range(1, 17)]
        seed_files = [f for f in stable if cls[f] != 'big']
        def seeds_for(f):
            # quick tier: the files written to have several elements in every printed set under all seeds, the other hand-written ones under two,
            # generated / corpus files under one more seed
            if chk.thorough or pins_broken or cls[f] in ('flags', 'xml'):
                return seeds
            return rng.sample(seeds, 2 if cls[f].startswith(('cs:', 'twin:')) or cls[f] == 'plural' else 1)
        jobs = [(f, s) for f in seed_files for s in seeds_for(f)]
        outs = E.parallel(lambda js: E.run_cli([js[0]], wd.path, hashseed=js[1]), jobs, workers=WORKERS)
        chk.evaluations += len(jobs)
        for (f, s), r in zip(jobs, outs):
            if r['stdout'] != ref[f]['stdout']:
                found.append({'kind': 'hash-seed', 'file': f, 'content': content(f)[:1500], 'seed_0': ref[f]['stdout'][:600], 'seed_' + s: r['stdout'][:600], 'seeds': ['0', s],
                              'suspect_sites': suspects[:8]})
        tick('hash_seed_runs')
        # 3. multi-file invocations: lists that interleave charsets / formats / flags / file types, rotations, reversal, sub-lists;
        #    -j 1 / 2 / 3 / 5 with the big files early and in the middle; several hash seeds
        inter = interleave([(f, cls[f]) for f in stable], rng)
        big = [f for f in inter if cls[f] == 'big']
        small = [f for f in inter if cls[f] != 'big']
        uneven = small[:3] + big[:1] + small[3:len(small) // 2] + big[1:] + small[len(small) // 2:]
        lists = [uneven, uneven[::-1]]
        for k in ([1, 3, 7, len(uneven) // 2] if chk.thorough else [len(uneven) // 2]):
            lists.append(uneven[k:] + uneven[:k])
        css = [f for f in stable if cls[f].startswith('cs:')]
        lists.append(css + css[::-1])                    # every charset before and after every other one, each path twice
        fams = {}
        for f in stable:
            if cls[f].startswith('twin:'):
                fams.setdefault(cls[f], []).append(f)
        twin_lists = []
        for fam, members in sorted(fams.items()):
            twin_lists += [members, members[::-1]]       # each member after its predecessor and after its successor
        all_twins = [f for fam in sorted(fams) for f in fams[fam]]
        twin_lists.append(rng.sample(all_twins, len(all_twins)))
        for _ in range(6 if chk.thorough else 2):
            lists.append(rng.sample(stable, k=min(len(stable), rng.randint(2, 9))))
        if pins_broken:
            for a in css[:6]:
                for b in css[:6]:
                    if a != b:
                        lists.append([a, b])
        runs = []
        for fl in lists:
            for j in (['1', '2', '5'] if chk.thorough else (['1', '3'] if len(fl) > 12 else [rng.choice(['1', '2', '3'])])):
                runs.append((fl, j, rng.choice(['0', '1', '2']), []))
        for fl in twin_lists:
            runs.append((fl, '1', rng.choice(['0', '1', '2']), []))      # one process: the members share every cache
        if chk.thorough or pins_broken:
            for fam, members in sorted(fams.items()):
                for a in members:
                    for b in members:
                        if a != b:
                            runs.append(([a, b], '1', '0', []))
        # option sets (configurations): the same options object is shared by all files of an invocation
        deb = build_deb(wd)
        optsets = [['-l', 'de'], ['-l', 'sr@latin'], ['--unpack-deb'], ['--file-type', 'po'], ['--unpack-deb', '-l', 'pt_BR']] if chk.thorough else \
                  [['-l', 'sr@latin'], ['--unpack-deb'], ['--file-type', 'po']]
        others = [f for f in stable if cls[f] == 'other']
        opt_base = others + [f for f in stable if cls[f] == 'twin:modifier'][:3] + [f for f in stable if cls[f] == 'twin:type'] + \
                   [f for f in interleave([(f, cls[f]) for f in stable if cls[f] not in ('big', 'other') and not cls[f].startswith('twin:')], rng)][:(24 if chk.thorough else 6)]
        opt_ref = {}
        for o in optsets:
            opt_files = list(opt_base)
            if deb and '--unpack-deb' in o:
                # the package first, in the middle and last: files that are not gettext files come after it and before it
                opt_files = [deb] + opt_files[:len(opt_files) // 2] + [deb] + opt_files[len(opt_files) // 2:]
            uniq = list(dict.fromkeys(opt_files))
            rs = E.parallel(lambda f: E.run_cli(o + [f], wd.path, hashseed='0'), uniq, workers=WORKERS)
            chk.evaluations += len(uniq)
            opt_ref[tuple(o)] = dict(zip(uniq, rs))
            ok_files = [f for f in opt_files if opt_ref[tuple(o)][f]['rc'] == 0 and not opt_ref[tuple(o)][f]['stderr']]
            runs.append((ok_files, '1', '1', o))
            runs.append((ok_files[::-1], '1', '0', o))
            runs.append((ok_files, '2', '0', o))
        outs = E.parallel(lambda r: E.run_cli(r[3] + ['-j', r[1]] + r[0], wd.path, hashseed=r[2], timeout=600), runs, workers=WORKERS)
        chk.evaluations += len(runs)
        for (fl, j, s, o), r in zip(runs, outs):
            table = opt_ref[tuple(o)] if o else ref
            if r['stdout'] != expect(fl, table):
                got = r['stdout']
                pos = 0
                culprit = None
                for f in fl:
                    blk = table[f]['stdout']
                    if got[pos:pos + len(blk)] != blk:
                        culprit = f
                        break
                    pos += len(blk)
                # shrink the history: which single earlier file is enough?
                minimal = None
                if culprit is not None:
                    before = fl[:fl.index(culprit)]
                    pairs = E.parallel(lambda g: E.run_cli(o + ['-j', j, g, culprit], wd.path, hashseed=s), before[:60], workers=WORKERS)
                    for g, pr in zip(before, pairs):
                        if pr['stdout'] != table[g]['stdout'] + table[culprit]['stdout']:
                            minimal = {'files': [g, culprit], 'contents': [content(x)[:3000] for x in (g, culprit)],
                                       'got': pr['stdout'][:1500], 'expected': (table[g]['stdout'] + table[culprit]['stdout'])[:1500]}
                            break
                found.append({'kind': 'multi-file', 'jobs': j, 'seed': s, 'options': o, 'files': fl[:40], 'first_differing_file': culprit, 'minimal_history': minimal,
                              'expected_block': (table[culprit]['stdout'][:600] if culprit else None), 'got_from_there': got[pos:pos + 600], 'stderr': r['stderr'][-400:],
                              'suspect_sites': suspects[:8]})
        tick('multi_file_runs')
        terminal_runs(chk, wd, stable, cls, found, suspects)
        tick('terminal_runs')
        # 4. histories inside ONE process: the real main() with check_all called several times — the same relative paths with OTHER
        #    contents (second directory), reversed, twice in one list, then through the pool
        hand = [f for f in stable if cls[f] in ('flags', 'xml', 'twin:modifier', 'twin:type', 'twin:plural')] + [f for f in stable if cls[f].startswith('cs:')][:4] + [f for f in stable if cls[f] == 'plural'] + \
               [f for f in stable if cls[f] == 'mo'][:3] + [f for f in stable if cls[f] == 'pot'][:2]
        rest = [f for f in interleave([(f, cls[f]) for f in stable if cls[f] not in ('big',)], rng) if f not in hand][:(30 if chk.thorough else 8)]
        sub = interleave([(f, cls[f]) for f in hand + rest], rng)
        alt_dir = os.path.join(wd.path, 'alt')
        by_ext = {}
        for f in sub:
            by_ext.setdefault(os.path.splitext(f)[1], []).append(f)
        for ext, fs in by_ext.items():
            for f, g in zip(fs, fs[1:] + fs[:1]):          # path f gets the bytes of g
                dst = os.path.join(alt_dir, f)
                os.makedirs(os.path.dirname(dst), exist_ok=True)
                with open(dst, 'wb') as h:
                    h.write(open(os.path.join(wd.path, g), 'rb').read())
        alt_ref = dict(zip(sub, E.parallel(lambda f: E.run_cli([f], alt_dir, hashseed='0'), sub, workers=WORKERS)))
        chk.evaluations += len(sub)
        sub = [f for f in sub if alt_ref[f]['rc'] == 0 and not alt_ref[f]['stderr']]
        phases = [{'cwd': wd.path, 'files': sub, 'jobs': 1, 'trace': True, 'table': 'ref'},
                  {'cwd': alt_dir, 'files': sub, 'jobs': 1, 'trace': True, 'table': 'alt'},
                  {'cwd': wd.path, 'files': sub[::-1], 'jobs': 1, 'table': 'ref'},
                  {'cwd': alt_dir, 'files': sub + sub[:5], 'jobs': 3, 'table': 'alt'},
                  {'cwd': wd.path, 'files': [x for f in sub[:8] for x in (f, f)], 'jobs': 1, 'table': 'ref'}]
        res = probe('inproc', {'argv': [], 'phases': [{k: v for k, v in ph.items() if k != 'table'} for ph in phases]})
        traced = {}
        if 'fatal' in res or res.get('error') or len(res.get('phases', [])) != len(phases):
            found.append({'kind': 'in-process', 'problem': res.get('fatal') or res.get('error') or 'missing phases', 'suspect_sites': suspects[:8]})
        else:
            chk.evaluations += sum(len(ph['files']) for ph in phases)
            for i, (ph, r) in enumerate(zip(phases, res['phases'])):
                table = ref if ph['table'] == 'ref' else alt_ref
                exp = expect(ph['files'], table)
                if r['error'] or r['stdout'] != exp:
                    pos, culprit = 0, None
                    for f in ph['files']:
                        blk = table[f]['stdout']
                        if r['stdout'][pos:pos + len(blk)] != blk:
                            culprit = f
                            break
                        pos += len(blk)
                    found.append({'kind': 'in-process', 'phase': i, 'what': 'real main(); check_all called %d times in one process; phase %d = %s directory, %d files, jobs=%d' %
                                  (len(phases), i, 'second (same paths, other contents)' if ph['table'] == 'alt' else 'first', len(ph['files']), ph['jobs']),
                                  'files_of_the_phase': ph['files'][:40], 'earlier_phases': [(p['table'], len(p['files']), p['jobs']) for p in phases[:i]],
                                  'first_differing_file': culprit, 'content': (open(os.path.join(ph['cwd'], culprit), 'rb').read().decode('utf-8', 'replace')[:2000] if culprit else None),
                                  'expected_block': (table[culprit]['stdout'][:600] if culprit else None), 'got_from_there': r['stdout'][pos:pos + 600], 'error': r['error'],
                                  'suspect_sites': suspects[:8]})
                    break
            traced = {k: set(v) for k, v in res.get('lines', {}).items()}
        tick('in_process_phases')
        chk.coverage['timing_s'] = timing
        # evidence: distribution, and which inventory sites the runs went through
        chk.coverage['determinism'] = {'files': len(files), 'by_class': {c: sum(1 for _f, k in classed if k == c) for c in sorted(set(cls.values()))},
                                       'files_with_output': len(nontrivial), 'excluded_crashing_files': bad_ref[:10],
                                       'single_file_runs': len(jobs), 'hash_seeds': seeds, 'multi_file_runs': len(runs), 'job_counts': sorted({r[1] for r in runs}),
                                       'option_sets': optsets, 'debian_package_among_the_files': bool(deb), 'twin_families': {k: len(v) for k, v in sorted(fams.items())}, 'in_process_phases': [(p['table'], len(p['files']), p['jobs']) for p in phases],
                                       'list_lengths': sorted({len(r[0]) for r in runs})}
        if scan_sites:
            def cov(sites, pred=lambda s: True):
                sel = [s for s in sites if s.get('lineno') and s.get('path') == 'perFile' and pred(s)]
                hit = [s for s in sel if s['lineno'] in traced.get(s['file'], ())]
                return {'sites': len(sel), 'executed_by_the_traced_in_process_lists': len(hit), 'not_executed': sorted({s['key'] for s in sel if s not in hit})[:25]}
            from collections import Counter
            chk.coverage['inventory'] = {
                'state_sites_by_kind': dict(Counter(s['kind'] for s in scan_sites['state'])),
                'iteration_sites_by_verdict': dict(Counter(s['verdict'] for s in scan_sites['iter'])),
                'mutation_roots': dict(Counter(s['root'] for s in scan_sites['mut'].sites)),
                'creation_sites': dict(Counter(c['role'] for c in scan_sites['mut'].creations)),
                'nondeterminism_sources': dict(Counter(s['kind'] for s in scan_sites['nondet'])),
                'suspect_sites': suspects,
                'note': 'coverage is measured over sites in functions of the per-file path, by a line trace of the sequential in-process phases '
                        '(import-time and start-up sites run before the trace starts; pool workers are not traced)',
                'coverage_iteration_sites': cov(scan_sites['iter']),
                'coverage_mutation_sites': cov(scan_sites['mut'].sites),
                'coverage_cache_and_redirect_sites': cov(scan_sites['state']),
            }
        chk.coverage['samples'].append({'file': files[2], 'output_head': ref[files[2]]['stdout'][:300]})
        # classify
        reported = False
        for v in found:
            key = None
            if v['kind'] == 'hash-seed':
                blob = v['seed_0'] + ''.join(str(x) for x in v.values())
                if 'python-brace-format-string-argument-type-mismatch' in blob:
                    key = 'C03:pybrace-type-set-order'
            if chk.violation('output differs across run contexts (' + v['kind'] + ')', v, key=key):
                reported = True
                break
        if not reported and chk.broken and not chk.violations:
            chk.violation('proof obligation no longer checks', {'broken': chk.broken, 'suspect_sites': suspects}, no_input=True)
    chk.finish(
        level='proof',
        rule='files: header-field mutations x message templates (all four format flags, plurals, contexts, obsolete, fuzzy), the same text under eight declared charsets, '
             'multi-flag messages, a file with several elements in every printed set, XML fragments, LC_MESSAGES paths with eight Plural-Forms shapes, MO files compiled from '
             "generated PO files, part of the project's black-box corpus, two large files; lists interleave these classes; each file alone (seed 0, fresh process) is the reference; "
             'non-trivial = file with non-empty output',
        trusted=['Lean 4.33 kernel, standard axioms',
                 'assumed contract of concurrent.futures.ProcessPoolExecutor.map written into the models (each task run once, in a worker forked from the parent; results delivered in '
                 'submission order) — exercised by the check_all correspondence on the real executor',
                 'the classifier rules of tools/translate/statescan.py (name-based call graph, path classes, value mutability, purity of cached functions, set-typing, order-free consumers, '
                 'root of a mutation) — listed in DESIGN-notes/determinism.md; its blind spots (aliases of globals, set-typed values it cannot see) are what the determinism runs are for',
                 'CPython: dict iteration is insertion-ordered; set iteration order is SOME permutation of the elements (nothing else is assumed)',
                 'real hash order and OS scheduling are exercised only by the runs (test level)'],
        explanation='PROVED. (1) pins over the inventories regenerated from the source: global_state_sites_benign, unordered_iteration_sites_sorted, lookup_tables_have_distinct_keys, '
                    'per_file_mutations_hit_per_call_objects, accumulators_per_call, nondeterminism_sources_benign. (2) model of main / check_all / check_file_s / check_file with explicit global '
                    'state (patched flag, caches; per-worker state in the pool): no_history, no_history_perm, multi_file_concat, main_concat_of_single_runs (for every kind of stdout), colour_independent_of_jobs, patch_environment_once; '
                    'stale_cache_breaks_no_history, probe_of_swapped_stdout_depends_on_jobs (what the pins exclude). (3) hash-order model (set iteration = arbitrary permutation): sorted_kills_order and the per-site '
                    'corollaries sorted_join/sorted_for/sorted_by_injective_key/any_match/dict_get/best_match/the_only _seed_independent; raw_join_depends_on_seed, tie_in_key_leaks_order. '
                    '(4) jobs_schedule_irrelevant, concat_of_single_runs (stateless model), tied to the real check_all by the check_all correspondence. '
                    'TEST level: real hash order, real scheduling, real terminals (pseudo-terminal runs), and everything the classifier cannot see — the determinism runs.')

if __name__ == '__main__':
    common.main_wrapper(main)
