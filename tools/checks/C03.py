#!/venv/bin/python
"""C03 — output is a deterministic function of each file, independent of run context."""
import os, sys, itertools
sys.path.insert(0, os.path.join(os.path.dirname(os.path.abspath(__file__)), '..'))
import common
import e2e_common as E
from gen import catalog as CAT

def build_files(chk, wd, n_gen, n_corpus):
    rng = chk.rng
    files = []
    # recorded witness (known finding C03:pybrace-type-set-order): always present
    wit = ('msgid ""\nmsgstr ""\n"Content-Type: text/plain; charset=UTF-8\\n"\n\n#, python-brace-format\nmsgid "{0:n}"\nmsgstr "{0:s}"\n')
    files.append(wd.write('corpus/hashorder.po', wit))
    # cross-file state: the same escaped / raw text under different declared charsets; the same unusual character, the same msgid
    # and the same header defect in several files (each file must be judged on its own)
    hdr = lambda cs: ('msgid ""\nmsgstr ""\n"Project-Id-Version: x 1\\n"\n"Language: de\\n"\n"Content-Type: text/plain; charset=%s\\n"\n\n' % cs).encode()
    body = (b'msgid "price in \\xa4"\nmsgstr "Preis in \\xa4\\n"\n\nmsgid "cost \\244"\nmsgstr "Kosten \\244\\n"\n\nmsgid "raw \xa4"\nmsgstr "roh \xa4\\n"\n\n'
            b'msgid "bell"\nmsgstr "Glocke\\a\xbf"\n\nmsgid "bell"\nmsgstr "x"\n')
    for cs in ('ISO-8859-1', 'ISO-8859-15', 'ISO-8859-2', 'KOI8-R', 'CP1252', 'ISO-8859-1'):
        files.append(wd.write(f'cs/{len(files)}-{cs}/de.po', hdr(cs) + body))
    # several format flags on one message, each checker with something to say (order of the checkers)
    fl = ['c-format', 'python-format', 'python-brace-format', 'perl-brace-format']
    two = 'msgid ""\nmsgstr ""\n"Content-Type: text/plain; charset=UTF-8\\n"\n\n'
    k = 0
    for a in fl:
        for b in fl:
            if a < b:
                k += 1
                two += f'#, {a}, {b}\nmsgid "%s items {{a}} {k}"\nmsgstr "%d Elemente {{b}} %(x)s"\n\n'
    two += '#, ' + ', '.join(fl) + '\nmsgid "%s all {a}"\nmsgstr "%d alle {b}"\n\n#, ' + ', '.join(reversed(fl)) + '\nmsgid "%s all {a} 2"\nmsgid_plural "%s alls {a}"\nmsgstr[0] "%d {b}"\nmsgstr[1] "%d {c}"\n'
    files.append(wd.write('corpus/multiflag.po', two))
    for i in range(n_gen):
        text, ext = CAT.gen_po(rng)
        files.append(wd.write(f'gen/f{i:03d}{ext}', text))
    corpus = CAT.corpus(common.REPO)
    rng.shuffle(corpus)
    for name, data in corpus[:n_corpus]:
        files.append(wd.write('bb/' + name, data))
    # a big file, so that with -j its completion comes after that of later small ones
    big = ''.join(CAT.gen_po(rng)[0] if k == 0 else '\nmsgid "m%d %%s"\nmsgstr "t%d"\n' % (k, k) for k in range(1500))
    files.insert(1, wd.write('gen/big.po', big))
    return [os.path.relpath(f, wd.path) for f in files]

def main():
    chk = common.Check('C03')
    chk.prove('I18n.Props.C03', generated=())
    rng = chk.rng
    n_gen, n_corpus = (120, 120) if chk.thorough else (28, 24)
    with E.Workdir() as wd:
        files = build_files(chk, wd, n_gen, n_corpus)
        # 1. single-file reference runs (PYTHONHASHSEED=0, -j 1)
        ref = dict(zip(files, E.parallel(lambda f: E.run_cli([f], wd.path, hashseed='0'), files)))
        chk.evaluations += len(files)
        nontrivial = {f for f, r in ref.items() if r['stdout'].strip()}
        chk.note_cases(nontrivial)
        bad_ref = [f for f, r in ref.items() if r['rc'] != 0 or r['stderr']]
        # crashes are C01's business; here a crashing file simply has the output it has (stdout), but it is excluded from -j comparisons
        stable = [f for f in files if f not in bad_ref]
        found = []
        def expect(flist):
            return ''.join(ref[f]['stdout'] for f in flist)
        # 2. repeated runs and hash seeds, single file
        seeds = ['1', '2', '3', '4', '5', '6', '7', '12345'] if chk.thorough else ['1', '2', '3', '7']
        jobs = [(f, s) for f in stable for s in seeds]
        outs = E.parallel(lambda js: E.run_cli([js[0]], wd.path, hashseed=js[1]), jobs)
        chk.evaluations += len(jobs)
        for (f, s), r in zip(jobs, outs):
            if r['stdout'] != ref[f]['stdout']:
                found.append({'kind': 'hash-seed', 'file': f, 'content': open(os.path.join(wd.path, f), 'rb').read().decode('utf-8', 'replace')[:1500],
                              'seed_0': ref[f]['stdout'][:600], 'seed_' + s: r['stdout'][:600], 'seeds': ['0', s]})
        # 3. multi-file invocations: whole list, rotations, prefixes, reversed; -j 1 / 2 / 5; several hash seeds
        lists = [stable, stable[::-1]]
        for k in ([1, 3, 7, len(stable) // 2] if chk.thorough else [1, len(stable) // 2]):
            lists.append(stable[k:] + stable[:k])
        for _ in range(6 if chk.thorough else 2):
            sub = rng.sample(stable, k=min(len(stable), rng.randint(2, 9)))
            lists.append(sub)
        runs = []
        for fl in lists:
            for j in (['1', '2', '5'] if chk.thorough else ['1', '3']):
                runs.append((fl, j, rng.choice(['0', '1', '2'])))
        outs = E.parallel(lambda r: E.run_cli(['-j', r[1]] + r[0], wd.path, hashseed=r[2], timeout=600), runs, workers=4)
        chk.evaluations += len(runs)
        for (fl, j, s), r in zip(runs, outs):
            if r['stdout'] != expect(fl):
                # locate the first file whose block differs
                got = r['stdout']
                pos = 0
                culprit = None
                for f in fl:
                    blk = ref[f]['stdout']
                    if got[pos:pos + len(blk)] != blk:
                        culprit = f
                        break
                    pos += len(blk)
                # shrink the history: which single earlier file is enough?
                minimal = None
                if culprit is not None:
                    before = fl[:fl.index(culprit)]
                    pairs = E.parallel(lambda g: E.run_cli(['-j', j, g, culprit], wd.path, hashseed=s), before[:60])
                    for g, pr in zip(before, pairs):
                        if pr['stdout'] != ref[g]['stdout'] + ref[culprit]['stdout']:
                            minimal = {'files': [g, culprit],
                                       'contents': [open(os.path.join(wd.path, x), 'rb').read().decode('utf-8', 'replace')[:3000] for x in (g, culprit)],
                                       'got': pr['stdout'][:1500], 'expected': (ref[g]['stdout'] + ref[culprit]['stdout'])[:1500]}
                            break
                found.append({'kind': 'multi-file', 'jobs': j, 'seed': s, 'files': fl[:40], 'first_differing_file': culprit, 'minimal_history': minimal,
                              'expected_block': (ref[culprit]['stdout'][:600] if culprit else None), 'got_from_there': got[pos:pos + 600], 'stderr': r['stderr'][-400:]})
        chk.coverage['determinism'] = {'files': len(files), 'files_with_output': len(nontrivial), 'excluded_crashing_files': bad_ref[:10],
                                       'single_file_runs': len(jobs), 'multi_file_runs': len(runs), 'hash_seeds': seeds, 'job_counts': sorted({r[1] for r in runs})}
        chk.coverage['samples'].append({'file': files[2], 'output_head': ref[files[2]]['stdout'][:300]})
        # classify
        reported = False
        for v in found:
            key = None
            if v['kind'] == 'hash-seed':
                blob = v['seed_0'] + ''.join(str(x) for x in v.values())
                if 'python-brace-format-string-argument-type-mismatch' in blob:
                    key = 'C03:pybrace-type-set-order'
            if chk.violation('output differs across run contexts (' + v['kind'] + ')', v, key=key):
                reported = True
                break
        if not reported and chk.broken and not chk.violations:
            chk.violation('proof obligation no longer checks', {'broken': chk.broken}, no_input=True)
    chk.finish(
        level='proof',
        rule='generated PO/POT files (header-field mutations x message templates incl. all four format flags, plurals, contexts, obsolete, fuzzy) + a random part of the '
             "project's black-box corpus + one large file; each file alone (seed 0) is the reference; non-trivial = file with non-empty output",
        trusted=['Lean 4.33 kernel, standard axioms', 'assumed contract of concurrent.futures.Executor.map written into the model (results in submission order, each task once)',
                 'that the per-file output is a function of the file alone is NOT provable in a model: decided by the determinism runs of the real CLI'],
        explanation='PROVED (model of cli.check_all): jobs_schedule_irrelevant, concat_of_single_runs - for every job count and every completion order the output is the concatenation, '
                    'in argument order, of the per-file outputs. TEST level (real CLI in subprocesses): identical output across PYTHONHASHSEED values, repeated runs, rotations/prefixes/'
                    'reversals of the file list and -j 1/2/3/5, each compared with the single-file reference output.')

if __name__ == '__main__':
    common.main_wrapper(main)
