"""Correspondence between the LR-driver model (Model/PluralLR.lean over the dumped tables) and the real rply parser:
same outcome, same tree, and the same sequence of productions reduced by (the real action functions are wrapped)."""
import plural_common as P
from gen import plural as G

def impl_parse_lr(s):
    """'ok <prefix AST> ; r=<production numbers>' | 'err syntax ; lex' | 'err syntax ; r=…' | 'err <Class> …'"""
    try:
        from lib import intexpr
        parser = intexpr.Parser()
        lexer, lr = parser._lexer, parser._parser
        prods = list(lr.lr_table.grammar.productions)
    except Exception as exc:
        return 'err setup ' + type(exc).__name__
    try:
        list(lexer.lex(s))
    except intexpr.LexingError:
        return 'err syntax ; lex'
    except Exception as exc:
        return 'err ' + type(exc).__name__ + ' ; lex'
    # the dump numbers the productions canonically: 0 = the augmented one, the others sorted by (lhs, rhs)
    porder = [0] + sorted(range(1, len(prods)), key=lambda i: (prods[i].name, tuple(prods[i].prod)))
    canon = {prods[old].number: k for k, old in enumerate(porder)}
    trace = []
    saved = [(p, p.func) for p in prods]
    def wrap(p, fn):
        def wrapped(*a, **kw):
            trace.append(canon.get(p.number, -1))
            return fn(*a, **kw)
        return wrapped
    try:
        for p, fn in saved:
            if fn is not None:
                p.func = wrap(p, fn)
        try:
            ex = parser.parse(s)
        except intexpr.ParsingError:
            return 'err syntax ; r=' + ','.join(map(str, trace))
        except intexpr.LexingError:
            return 'err syntax ; lex-late'
        except Exception as exc:
            return 'err ' + type(exc).__name__ + ' ; r=' + ','.join(map(str, trace))
        try:
            return 'ok ' + G.to_prefix(G.from_pyast(ex._node)) + ' ; r=' + ','.join(map(str, trace))
        except ValueError as exc:
            return f'err ast-shape {exc}'
    finally:
        for p, fn in saved:
            p.func = fn

def stream_lr(chk, strings):
    # the int() digit-limit strings are kept: both sides must accept them since fix 871d4d7
    lines = ['plurallr parse ' + P.hexchars(s) for s in strings]
    outs = [impl_parse_lr(s) for s in strings]
    chk.coverage.setdefault('lr_inputs', {}).update({
        'strings': len(strings),
        'accepted': sum(o.startswith('ok') for o in outs),
        'rejected_by_lexer': sum(o == 'err syntax ; lex' for o in outs),
        'rejected_by_parser': sum(o.startswith('err syntax ; r=') for o in outs),
        'longest_reduction_sequence': max([o.count(',') + 1 for o in outs if '; r=' in o and not o.endswith('r=')] or [0])})
    return chk.stream('plural-lr', lines, outs)


def impl_lex(s):
    """the real rply lexer, run to exhaustion: 'ok NAME:text …' (INT text as its value) | 'err lex'"""
    try:
        from lib import intexpr
        lexer = intexpr.create_lexer()
    except Exception as exc:
        return 'err setup ' + type(exc).__name__
    try:
        toks = list(lexer.lex(s))
    except intexpr.LexingError:
        return 'err lex'
    except Exception as exc:
        return 'err ' + type(exc).__name__
    out = []
    for t in toks:
        name, text = t.gettokentype(), t.getstr()
        if name == 'INT':
            try:
                text = str(int(text))
            except Exception as exc:
                return 'err ' + type(exc).__name__
        out.append(f'{name}:{text}')
    return 'ok ' + ' '.join(out)

def stream_lex(chk, strings):
    strings = [s for s in strings if len(s) < 3000]
    lines = ['plurallr lex ' + P.hexchars(s) for s in strings]
    outs = [impl_lex(s) for s in strings]
    chk.coverage.setdefault('lex_inputs', {}).update({
        'strings': len(strings), 'tokenised': sum(o.startswith('ok') for o in outs), 'lexing_errors': sum(o == 'err lex' for o in outs)})
    return chk.stream('plural-lex', lines, outs)


HOSTILE = ['\u0663', '\uff13', '\u0969', '\u00b2', '\u2163', '\n', '\r', '\x0b', '\x0c', '\x1c', '\x85', '\xa0', '\u2003', '\u3000', '\ufeff',
           'N', '\uff4e', '\u0578', '\uff0b', '\uff1d', '\uff01', '\u2212', '\x00', ';', '\\', '~', '^', '\u00d7', '\u00f7', '"', "'", '#', '.', ',', '_', '$', '@', '`', '{', '[']

def hostile_strings():
    """characters a loosened regex (\\d, \\s, re.IGNORECASE, a wider class) would let through, placed at every kind of position"""
    out = []
    for h in HOSTILE:
        out += [h, h + h, 'n' + h, h + 'n', 'n == 1' + h, 'n' + h + '== 1', 'n ==' + h + '1', 'n == 1' + h + '0', 'n == ' + h,
                '(' + h + 'n)', 'n ? 1' + h + ': 2', '!' + h + 'n', 'n ' + h + ' n', 'n %' + h + '10 == 1 ? 0 : 1']
    return out
