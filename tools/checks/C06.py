#!/venv/bin/python
"""C06 — periodicity analysis of plural expressions is sound."""
import os, sys
sys.path.insert(0, os.path.join(os.path.dirname(os.path.abspath(__file__)), '..'))
import common
from gen import plural as G

def main():
    chk = common.Check('C06')
    import plural_common as P
    proved = chk.prove('I18n.Props.C06')
    driver_ok = os.path.exists(common.driver_path()) and not any('untranslatable' in s for s in chk.lean.translation.values())
    n_cases = 6000 if chk.thorough else 1200
    cases = P.build_cases(chk, n_cases, depth=6 if chk.thorough else 5)
    chk.note_cases({(G.to_prefix(e), bits) for e, ex, bits in cases if G.size(e) > 1})
    if driver_ok:
        P.stream_period(chk, cases)
        P.stream_eval(chk, cases, per_case=4 if chk.thorough else 2)
        P.stream_gcd_lcm(chk, 2000 if chk.thorough else 300)
    else:
        chk.broken.append({'kind': 'correspondence', 'stream': 'plural-*', 'problem': 'driver could not be rebuilt from the regenerated model'})
    mult = 3 if chk.broken else 1
    cex, tried = P.falsify_period(chk, (60000 if chk.thorough else 12000) * mult)
    tried32 = 0
    if cex is None:
        cex, tried32 = P.falsify_period_32(chk, (6000 if chk.thorough else 600) * mult)
    chk.evaluations += tried + tried32
    chk.coverage['falsifier'] = {'expressions_all_n_widths_0_6': tried, 'expressions_windows_width_32': tried32, 'found': cex is not None}
    if cex is not None:
        chk.violation('periodicity analysis unsound on the real code', cex, key=cex.get('kind') + ':' + cex.get('expr', ''))
    elif chk.broken:
        chk.violation('proof obligation or correspondence no longer checks', {'broken': chk.broken}, no_input=True)
    chk.finish(
        level='proof',
        rule='expressions from a grammar-directed generator biased to n % C and n <cmp> C shapes, parsed by the real parser; '
             'non-trivial = distinct (AST, width) with at least one operator',
        trusted=['Lean 4.33 kernel', 'axioms: propext, Classical.choice, Quot.sound only',
                 'py2lean translator for lib/intexpr.py, incl. the declared loop variant of gcd (y + 1), which gcd_loop proves sufficient',
                 'glue evalAt/period (1 << bits) tied by the plural-eval/plural-period streams'],
        explanation='period_sound / period_nocrash / gcd_correct proved over the PeriodEvaluator, gcd and lcm GENERATED from '
                    'lib/intexpr.py on this run; correspondence validates translator + glue; falsifier checks the real code at all n '
                    'for widths <= 6 and in windows at O and 2^32 - P for width 32.')

if __name__ == '__main__':
    common.main_wrapper(main)
