"""Drive the real `lib.check.Checker` methods in-process with a capturing `tag()`."""
import argparse, collections, os, sys, types
sys.path.insert(0, os.path.join(os.path.dirname(os.path.abspath(__file__)), '..'))
import common
common.setup_repo_import()

_ready = False

def ready():
    global _ready
    if not _ready:
        from lib import check
        try:
            check.Checker.patch_environment()
        except check.EnvironmentAlreadyPatched:
            pass
        _ready = True

def hexs(s):
    return '.'.join('%x' % ord(c) for c in s) if s else '-'

def canon_extra(x):
    from lib import tags
    if isinstance(x, tags.safestr):
        return 'S:' + hexs(str(x))
    if isinstance(x, bool):
        return 'i:%d' % int(x)
    if isinstance(x, int):
        return 'i:%d' % x
    if isinstance(x, bytes):
        return 'b:' + x.hex()
    if isinstance(x, str):
        return 's:' + hexs(x)
    return 'o:' + hexs(repr(x))

def make_checker(path='/nonexistent/x.po', **opts):
    ready()
    from lib import check
    calls = []
    class Capturing(check.Checker):
        def tag(self, tagname, *extra):
            calls.append((tagname, extra))
    options = argparse.Namespace(ignore_tags=set(), fake_root=None, file_type=None, language=None, unpack_deb=False, jobs=1)
    for k, v in opts.items():
        setattr(options, k, v)
    return Capturing(path, options=options), calls

def canon_calls(calls):
    return ';'.join(name + '(' + ','.join(canon_extra(x) for x in extra) + ')' for name, extra in calls)
