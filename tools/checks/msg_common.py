"""C16: harness pieces — protocol encoding, the real `check_messages` / `_check_message_flags` driven with synthetic ctx and a
capturing `tag()`, expat called directly (oracle input of the model), the end-to-end runner through `Checker.check()` on files,
and `ref_rules`: an independent implementation of the DESIGN Appendix-B rule set (written from data/tags and the property
statement, not from the code) used by the falsifier."""
import os, re, sys, tempfile, types, shutil, collections
sys.path.insert(0, os.path.join(os.path.dirname(os.path.abspath(__file__)), '..'))
import common
import checker_harness as H
from gen import msg as G

MESSAGE_TAGS = ['conflict-marker-in-translation', 'duplicate-message-definition', 'empty-file', 'inconsistent-leading-newlines',
                'inconsistent-trailing-newlines', 'partially-translated-message', 'stray-previous-msgid', 'translation-in-template',
                'unusual-character-in-translation', 'conflicting-message-flags', 'duplicate-message-flag', 'invalid-range-flag',
                'range-flag-without-plural-string', 'redundant-message-flag', 'unknown-message-flag', 'malformed-xml']

# ----------------------------------------------------------------------------- protocol

def hs(s):
    return '.'.join('%x' % ord(c) for c in s) if s else '-'

def ho(s):
    return '~' if s is None else hs(s)

def enc_entry(e):
    forms = '+'.join('%d:%s' % (k, hs(v)) for k, v in e.msgstr_plural.items()) or '_'
    flags = '+'.join(hs(f) for f in e.flags) if e.flags else '_'
    return '/'.join([hs(e.msgid), ho(e.msgctxt), ho(e.msgid_plural), ho(e.msgstr), forms, flags, '1' if e.obsolete else '0',
                     ho(e.previous_msgctxt), ho(e.previous_msgid), ho(e.previous_msgid_plural), hs(e.comment or '')])

def enc_ctx(ctx):
    return ''.join('1' if ctx[k] else '0' for k in ('is_template', 'is_binary', 'hidden', 'encoding'))

# ----------------------------------------------------------------------------- expat, called directly (not through lib.xml)

_SRC = (b'<!DOCTYPE verif SYSTEM "verif.dtd" [\n  <!ENTITY verifent SYSTEM "verifent">\n]>\n<verif>&verifent;</verif>\n')

def expat_verdict(s):
    """'~' well-formed external-entity content, 'e<msg>' ExpatError, '!' anything else"""
    import xml.parsers.expat as expat
    def handler(context, base, systemid, publicid):
        sub = parser.ExternalEntityParserCreate(context)
        sub.Parse(s.encode('UTF-8'), True)
        return 1
    parser = expat.ParserCreate('UTF-8')
    parser.ExternalEntityRefHandler = handler
    try:
        parser.Parse(_SRC, True)
    except expat.ExpatError as exc:
        return 'e' + hs(str(exc))
    except Exception:
        return '!'
    return '~'

def xml_tokens(entries):
    toks, seen = [], set()
    for e in entries:
        if not (e.comment or '').startswith('type:'):
            continue
        for s in (e.msgid, e.msgstr):
            if s is None or s in seen:
                continue
            seen.add(s)
            v = expat_verdict(s)
            if v != '~':
                toks.append('x=%s=%s' % (hs(s), v))
    return toks

def check_line(ctx, entries):
    return ' '.join(['msg', 'check', enc_ctx(ctx), str(len(entries))] + [enc_entry(e) for e in entries] + xml_tokens(entries))

# ----------------------------------------------------------------------------- the real code, unit level

class FileList(list):
    possible_hidden_strings = False

class Tracking:
    """iterable that records which entry the loop is at (used to attribute tag calls to entries)"""
    def __init__(self, entries, hidden, where):
        self.entries, self.possible_hidden_strings, self.where = entries, hidden, where
    def __iter__(self):
        for i, e in enumerate(self.entries):
            self.where[0] = i
            yield e
        self.where[0] = None
    def __len__(self):
        return len(self.entries)
    def __getitem__(self, i):
        return self.entries[i]

class Obj:
    pass

def to_obj(e):
    from lib import polib4us
    o = Obj()
    o.msgid, o.msgctxt, o.msgid_plural, o.msgstr = e.msgid, e.msgctxt, e.msgid_plural, e.msgstr
    d = polib4us.IntDict() if hasattr(polib4us, 'IntDict') else {}
    for k, v in e.msgstr_plural.items():
        d[k] = v
    o.msgstr_plural = d
    o.flags = list(e.flags)
    o.obsolete = e.obsolete
    o.previous_msgctxt, o.previous_msgid, o.previous_msgid_plural = e.previous_msgctxt, e.previous_msgid, e.previous_msgid_plural
    o.comment = e.comment
    o.tcomment = ''
    o.occurrences = []
    o.linenum = 0
    o.encoding = 'UTF-8'
    def translated():
        if o.obsolete or 'fuzzy' in o.flags:
            return False
        return o.msgstr or any(o.msgstr_plural.values())
    o.translated = translated
    return o

class StubFmt:
    def __init__(self, name, tag):
        self.name, self.tag = name, tag
    def check_message(self, ctx, message, flags):
        self.tag('@format', self.name, flags)

def canon_info(flags):
    try:
        mx = flags.range_max
        mx = 'inf' if mx == float('inf') else str(int(mx))
        fs = '+'.join(hs(f) for f in sorted(flags.formats)) or '_'
        return '%d,%d,%s,%s' % (1 if flags.fuzzy else 0, flags.range_min, mx, fs)
    except Exception as exc:
        return 'bad-info:' + type(exc).__name__

def canon_call(name, extra):
    if name == '@format':
        return '@format(%s,%s)' % (hs(extra[0]), canon_info(extra[1]))
    return name + '(' + ','.join(H.canon_extra(x) for x in extra) + ')'

def canon_exc(exc):
    n = type(exc).__name__
    return '!' + n if n in ('ValueError', 'IndexError', 'KeyError') else '!other'

def make_checker(where=None, stub=True):
    """a real Checker whose tag() records (entry index the loop is at, name, extras); the four format checkers are replaced by
    stubs that record the dispatch (the format checks are property C14's)"""
    chk, _ = H.make_checker()
    calls = []
    def tag(tagname, *extra):
        calls.append((where[0] if where is not None else None, tagname, extra))
    chk.tag = tag
    if stub:
        try:
            chk._message_format_checkers = {k: StubFmt(k, tag) for k in chk._message_format_checkers}
        except Exception:
            pass
    return chk, calls

def make_ctx(ctx, entries, where):
    c = types.SimpleNamespace()
    c.file = Tracking([to_obj(e) for e in entries], ctx['hidden'], where)
    c.is_template, c.is_binary = ctx['is_template'], ctx['is_binary']
    c.encoding = 'UTF-8' if ctx['encoding'] else None
    c.metadata = collections.defaultdict(list)
    return c

def run_impl(ctx, entries):
    """the real `check_messages` on synthetic ctx: (canonical line, calls attributed to entry indices, exception tail)"""
    where = [None]
    chk, calls = make_checker(where)
    tail = []
    try:
        chk.check_messages(make_ctx(ctx, entries, where))
    except Exception as exc:
        tail = [canon_exc(exc)]
    parts = [canon_call(n, x) for _, n, x in calls] + tail
    return 'ok ' + (';'.join(parts) if parts else '-'), calls, tail

def run_flags_impl(e):
    chk, calls = make_checker()
    tail = []
    info = None
    try:
        info = chk._check_message_flags(to_obj(e))
    except Exception as exc:
        tail = [canon_exc(exc)]
    parts = [canon_call(n, x) for _, n, x in calls] + tail
    return 'ok %s %s' % (canon_info(info) if info is not None else 'none', ';'.join(parts) if parts else '-')

def flags_line(e):
    return 'msg flags ' + enc_entry(e)

def impl_repr(colon, msgid, ctxt):
    from lib.check.msgrepr import message_repr
    o = Obj(); o.msgid, o.msgctxt = msgid, ctxt
    try:
        return 'ok ' + hs(str(message_repr(o, template='{}:' if colon else '{}')))
    except Exception as exc:
        return 'err ' + type(exc).__name__

def impl_unusual(s):
    from lib import check
    try:
        return 'ok ' + hs(''.join(check.find_unusual_characters(s)))
    except Exception as exc:
        return 'err ' + type(exc).__name__

def impl_marker(s):
    from lib import gettext
    try:
        m = gettext.search_for_conflict_marker(s)
        return 'ok ' + ('~' if m is None else hs(m.group(0)))
    except Exception as exc:
        return 'err ' + type(exc).__name__

def impl_gate(s):
    """the gate of `_check_message_formats`, observed through whether `_check_message_xml_format` is entered"""
    chk, calls = make_checker()
    hit = []
    chk._check_message_xml_format = lambda ctx, message, flags: hit.append(1)
    o = to_obj(G.E('x', comment=s))
    try:
        chk._check_message_formats(types.SimpleNamespace(encoding='UTF-8', is_template=False), o, types.SimpleNamespace(formats=frozenset(), fuzzy=False))
    except Exception as exc:
        return 'err ' + type(exc).__name__
    return 'ok %d' % (1 if hit else 0)

def impl_range(flag):
    """`_check_message_flags` on a plural message with this one flag: the parsed range, observed through the returned info"""
    chk, calls = make_checker()
    try:
        info = chk._check_message_flags(to_obj(G.E('x', msgid_plural='xs', msgstr_plural={0: 'a'}, flags=[flag])))
    except Exception as exc:
        return 'err ' + type(exc).__name__
    bad = [n for _, n, x in calls if n == 'invalid-range-flag']
    if not flag.startswith('range:'):
        return 'skip'
    if bad:
        return 'ok ~'
    mx = info.range_max
    return 'ok %d,%s' % (info.range_min, 'inf' if mx == float('inf') else int(mx))

# ----------------------------------------------------------------------------- end to end: files through Checker.check()

def run_e2e(workdir, name, text):
    """write the file, run the real `Checker.check()` with a capturing tag(); message-level calls only, as a sorted multiset"""
    path = os.path.join(workdir, name)
    with open(path, 'w', encoding='UTF-8', newline='') as f:
        f.write(text)
    chk, calls = H.make_checker(path)
    tail = []
    try:
        chk.check()
    except Exception as exc:
        tail = ['!' + type(exc).__name__]
    mine = [(n, x) for n, x in calls if n in MESSAGE_TAGS]
    other = sorted({n for n, x in calls if n not in MESSAGE_TAGS})
    return sorted(canon_call(n, x) for n, x in mine) + tail, other

def load_entries(path):
    """what the real loader makes of the file (to confirm the writer round-trips)"""
    import polib
    try:
        f = polib.pofile(path)
    except UnicodeDecodeError:
        f = polib.pofile(path, encoding='ISO-8859-1')
    res = []
    for m in f:
        res.append(G.E(m.msgid, m.msgctxt, m.msgid_plural, m.msgstr, dict(m.msgstr_plural), list(m.flags), bool(m.obsolete),
                       m.previous_msgctxt, m.previous_msgid, m.previous_msgid_plural, m.comment or ''))
    return res

# ----------------------------------------------------------------------------- reference rules (Appendix B), independent of the code

def _is_unusual_at(s, i):
    c = ord(s[i])
    if c <= 0x1f and c not in (0x09, 0x0a, 0x1b):
        return True                                        # C0 except TAB, LF, ESC
    if c == 0x1b:
        return not (i + 1 < len(s) and s[i + 1] == '[')    # ESC, except when followed by [
    if c == 0x7f or 0x80 <= c <= 0x9f:
        return True                                        # DEL, C1
    if c in (0xfeff, 0xfffd, 0xfffe, 0xffff):
        return True
    if c == 0xbf:
        return i > 0 and (s[i - 1].isalnum() or s[i - 1] == '_')     # only directly after a letter (word character)
    return False

def ref_unusual(s):
    return {s[i] for i in range(len(s)) if _is_unusual_at(s, i)}

def ref_marker(s):
    for line in s.split('\n'):
        if line.startswith('#-#-#-#-#  ') and line.endswith('  #-#-#-#-#') and len(line) >= 23:
            return line
    return None

_NAME_START = [(0x3a, 0x3a), (0x41, 0x5a), (0x5f, 0x5f), (0x61, 0x7a), (0xc0, 0xd6), (0xd8, 0xf6), (0xf8, 0x2ff), (0x370, 0x37d), (0x37f, 0x1fff), (0x200c, 0x200d),
               (0x2070, 0x218f), (0x2c00, 0x2fef), (0x3001, 0xd7ff), (0xf900, 0xfdcf), (0xfdf0, 0xfffd), (0x10000, 0xeffff)]      # XML 1.0 NameStartChar
_NAME_MORE = [(0x2d, 0x2e), (0x30, 0x39), (0xb7, 0xb7), (0x300, 0x36f), (0x203f, 0x2040)]                                          # NameChar adds these

def _in(rs, c):
    return any(a <= c <= b for a, b in rs)

def ref_gate(comment):
    p = 'type: Content of: '
    if not comment.startswith(p):
        return False
    rest = comment[len(p):]
    if not rest:
        return False
    while rest:
        if rest[0] != '<':
            return False
        j = rest.find('>')
        if j < 0:
            return False
        name = rest[1:j]
        if not name or not _in(_NAME_START, ord(name[0])) or not all(_in(_NAME_START, ord(ch)) or _in(_NAME_MORE, ord(ch)) for ch in name[1:]):
            return False
        rest = rest[j + 1:]
    return True

def ref_range(flag):
    """`range:<min>..<max>`, non-negative integers, at least two numbers in the range; surrounding blanks tolerated"""
    body = flag[len('range:'):].strip(' \t\r\f\v')
    parts = body.split('..')
    if len(parts) != 2:
        return None
    a, b = parts
    if not a or not b or any(ch not in '0123456789' for ch in a + b):
        return None
    a, b = int(a), int(b)
    return (a, b) if a < b else None

PREFIXES = ['no-', 'possible-', 'impossible-']

def ref_formats():
    """the HAND-MAINTAINED reference of the format languages: the rows of lean/I18n/Spec/StringFormatsRef.lean (one source of truth
    for the Lean pin `string_formats_compat_pin` and for the falsifier).  name -> frozenset of example directives"""
    path = os.path.join(common.VERIF, 'lean', 'I18n', 'Spec', 'StringFormatsRef.lean')
    table = {}
    for line in open(path, encoding='utf-8'):
        m = re.match(r'\s*\("([^"]+)", \[(.*)\]\)[,\]]\s*$', line)
        if m:
            table[m.group(1)] = frozenset(re.findall(r'"([^"]*)"', m.group(2)))
    if len(table) < 20:
        raise common.Infra('reference table of format languages could not be read from ' + path)
    return table

def reference_view(live):
    """the table the reference rules decide with: the reference's example sets for the formats it knows (whatever the data file says
    about them — including when the data file dropped them), the data file's for formats only the data file knows"""
    view = dict(live)
    view.update(ref_formats())
    return view

def ref_format_flag(flag, formats):
    """(kind, format) of a `[no-|possible-|impossible-]<fmt>-format` flag with `<fmt>` in data/string-formats, else None"""
    if not flag.endswith('-format'):
        return None
    stem = flag[:-len('-format')]
    for p in PREFIXES:
        if stem.startswith(p) and stem[len(p):] in formats:
            return (p[:-1], stem[len(p):])
    if stem in formats:
        return ('', stem)
    return None

def ref_flag_rules(e, formats, repr_colon):
    """expected flag diagnostics of one message as a multiset of (tag, extras…)"""
    out = []
    cnt = collections.Counter(e.flags)
    distinct = sorted(cnt)
    ranges = {}          # (i, j) -> list of flag texts (with multiplicity)
    kinds = collections.defaultdict(dict)     # kind -> fmt -> flag
    for f in distinct:
        n = cnt[f]
        valid_range = False
        if f in ('fuzzy', 'wrap', 'no-wrap', 'markdown-text'):
            pass
        elif f.startswith('range:'):
            if e.msgid_plural is None:
                out.append(('range-flag-without-plural-string',))
            r = ref_range(f)
            if r is None:
                out.append(('invalid-range-flag', repr_colon, f))
            else:
                valid_range = True
                ranges.setdefault(r, []).extend([f] * n)
        else:
            k = ref_format_flag(f, formats)
            if k is None:
                out.append(('unknown-message-flag', repr_colon, f))
            else:
                kinds[k[0]][k[1]] = f
        if n > 1 and f and not valid_range:
            out.append(('duplicate-message-flag', repr_colon, f))
    if 'wrap' in cnt and 'no-wrap' in cnt:
        out.append(('conflicting-message-flags', repr_colon, 'wrap', 'no-wrap'))
    if len(ranges) >= 2:
        r1, r2 = sorted(ranges)[:2]
        out.append(('conflicting-message-flags', repr_colon, min(ranges[r1]), min(ranges[r2])))
    elif len(ranges) == 1:
        [texts] = ranges.values()
        if len(texts) > 1:
            out.append(('duplicate-message-flag', repr_colon, min(texts)))
    pos = kinds['']
    for f1 in sorted(pos):
        for f2 in sorted(pos):
            if f1 < f2 and not (formats[f1] & formats[f2]):
                out.append(('conflicting-message-flags', repr_colon, pos[f1], pos[f2]))
    for a, b in (('', 'no'), ('', 'impossible'), ('possible', 'impossible')):
        for f in sorted(set(kinds[a]) & set(kinds[b])):
            out.append(('conflicting-message-flags', repr_colon, kinds[a][f], kinds[b][f]))
    for f in sorted(set(pos) & set(kinds['possible'])):
        out.append(('redundant-message-flag', repr_colon, kinds['possible'][f], '(implied by %s)' % pos[f]))
    return out

def char_name(ch):
    import unicodedata
    try:
        return unicodedata.name(ch)
    except ValueError:
        if unicodedata.category(ch) == 'Cn':
            return 'non-character'
        return None

def ref_rules(ctx, entries, formats, repr_of, xml_verdict, ctl_name):
    """Appendix B: expected message-level diagnostics: (per-entry lists, file-level list).  Every item is
    (tag, extra…) with `repr_of(e, colon)` standing for the message_repr extra."""
    per = []
    seen = collections.Counter()
    reported_uc = set()
    n_messages = 0
    for e in entries:
        out = []
        per.append(out)
        if e.obsolete or (e.msgid == '' and e.msgctxt is None):
            continue
        n_messages += 1
        rc, rp = repr_of(e, True), repr_of(e, False)
        fuzzy = 'fuzzy' in e.flags
        out += ref_flag_rules(e, formats, rc)
        key = (e.msgid, e.msgctxt)
        seen[key] += 1
        if seen[key] == 2:
            out.append(('duplicate-message-definition', rp))
        forms = [v for k, v in sorted(e.msgstr_plural.items())]
        some_form = any(forms)
        if ctx['is_template'] and (e.msgstr or some_form):
            out.append(('translation-in-template', rp))
        if (e.previous_msgid is not None or e.previous_msgctxt is not None or e.previous_msgid_plural is not None) and not fuzzy:
            out.append(('stray-previous-msgid', rp))
        considered = [e.msgid_plural] if e.msgid_plural is not None else []
        if not fuzzy:
            if e.msgstr:
                considered.append(e.msgstr)
            if some_form:
                considered += forms
        if any(s.startswith('\n') != e.msgid.startswith('\n') for s in considered):
            out.append(('inconsistent-leading-newlines', rp))
        if any(s.endswith('\n') != e.msgid.endswith('\n') for s in considered):
            out.append(('inconsistent-trailing-newlines', rp))
        translations = ([e.msgstr] if e.msgstr else []) + (forms if some_form else [])
        if ctx['encoding']:
            explained = ref_unusual(e.msgid) | ref_unusual(e.msgid_plural or '')
            for s in translations:
                uc = ref_unusual(s) - explained - reported_uc
                if uc:
                    names = ', '.join('U+%04X %s' % (ord(ch), ctl_name(ch)) for ch in sorted(uc))
                    out.append(('unusual-character-in-translation', rc, names))
                    reported_uc |= uc
        if not fuzzy:
            for s in translations:
                m = ref_marker(s)
                if m is not None:
                    out.append(('conflict-marker-in-translation', rp, m))
                    break
            if some_form and not all(forms):
                out.append(('partially-translated-message', rp))
        if ref_gate(e.comment or '') and ctx['encoding']:
            v = xml_verdict(e.msgid)
            if v is not None:
                if ctx['is_template']:
                    out.append(('malformed-xml', rc, v))
            elif not fuzzy and e.msgstr:
                v = xml_verdict(e.msgstr)
                if v is not None:
                    out.append(('malformed-xml', rc, v))
    tail = []
    if n_messages == 0 and not (ctx['is_binary'] and ctx['hidden']):
        tail.append(('empty-file',))
    return per, tail
