#!/venv/bin/python
"""C19 — locale names are parsed, normalised and compared consistently."""
import os, sys
sys.path.insert(0, os.path.join(os.path.dirname(os.path.abspath(__file__)), '..'))
import common
from gen import locale as G

def corpus():
    d = os.path.join(common.VERIF, 'corpus', 'C19')
    out = []
    if os.path.isdir(d):
        for f in sorted(os.listdir(d)):
            if f.endswith('.txt'):
                with open(os.path.join(d, f), encoding='utf-8', newline='') as fh:
                    out.append(fh.read())
    return out

def corpus_cases():
    import json
    p = os.path.join(common.VERIF, 'corpus', 'C19', 'cases.json')
    if not os.path.exists(p):
        return []
    return [(bool(t), o, path, list(m), list(pl), list(pc)) for t, o, path, m, pl, pc in json.load(open(p, encoding='utf-8'))]

def main():
    chk = common.Check('C19')
    import locale_common as C
    proved = chk.prove('I18n.Props.C19', generated=('locale', 'linglang', 'chklang'), extra_targets=())
    problems = ' '.join(p for p in chk.lean.problems if 'translator(linglang)' not in p and 'translator(chklang)' not in p)
    # the tie by translation: lib/ling.py (class Language, parse_language, the code look-ups) regenerated from the current source and proved
    # equal to the model the theorems above are about (Props/C19Tie.lean)
    tie_ok = common.prove_tie(chk, 'I18n.Props.C19Tie', ('linglang', 'chklang'),
                              'lib/ling.py regenerated from the current source (Generated/Ling.lean) is no longer proved equal to the model '
                              '(Locale.parseLanguageE, fixCodes, removeEncoding, removeNonlinguisticModifier, isAlmostEqual, Language.str: '
                              'generated_*_eq_model and the clause-1/clause-2 corollaries)')
    driver_ok = os.path.exists(common.driver_path()) and not any('untranslatable' in s for k, s in chk.lean.translation.items() if k not in ('linglang', 'chklang')) \
        and 'Driver' not in problems and 'I18n.Model' not in problems and 'I18n.Spec' not in problems and 'I18n.Generated' not in problems
    rng = chk.rng
    T = C.gen_tables()
    boost = 3 if chk.broken else 1
    big = chk.thorough

    # ---------------- inputs
    pattern = getattr(C.L(), '_language_regexp', None)
    names_in = corpus() + G.BOUNDARY
    names_in += G.locale_strings(rng, (200000 if big else 12000) * boost, T, pattern)
    small = list(G.small_scope(maxlen=6 if big else (5 if chk.broken else 4)))
    codes = G.code_strings(T, exhaustive3=True)
    terrs = G.territory_strings(T)
    lang_names = G.name_variants(rng, T, (60000 if big else 3000) * boost)
    munch_in = G.munch_strings(rng, T, (60000 if big else 3000) * boost)
    cli_values = G.BOUNDARY + G.locale_strings(rng, (8000 if big else 500) * boost, T, None)
    paths = G.PATHS + G.GATED_PATHS + ['', '.', '..', '/', '//', '///', 'a/b/../../..', '/..', 'a//b/./c/', './', '../a', 'a/..', '//a/../..']
    paths += [rng.choice(['', '/', '//', './', '../']) + '/'.join(rng.choice(['a', '.', '..', '', 'pl', 'LC_MESSAGES', 'x.po', '.po', 'b.c'])
                                                             for _ in range(rng.randint(1, 6))) for _ in range(2000 if big else 400)]
    product = list(G.check_product())
    cases = corpus_cases()
    cases += [(False, None, p, m, [], []) for p in G.PATHS + G.GATED_PATHS for m in ([], ['pl'], ['de'], ['xx'])]
    cases += product if (big or chk.broken) else rng.sample(product, 1200)
    cases += G.check_cases(rng, (150000 if big else 4000) * boost, T, gated=True)

    # ---------------- correspondence: real code vs Lean model
    if driver_ok:
        GENERATED_OPS = {'parse': 'gparse', 'fix': 'gfix', 'lookup': 'glookup', 'territory': 'gterritory', 'almost': 'galmost', 'cli': 'gcli'}
        def stream(name, op, inputs, impl, to_arg=C.hexs):
            lines = [f'locale {op} {to_arg(x)}' for x in inputs]
            outs = [impl(x) for x in inputs]
            dis, _ = chk.stream(name, lines, outs)
            if tie_ok and op in GENERATED_OPS:
                # the same inputs through the definitions regenerated from lib/ling.py (Generated/Ling.lean)
                chk.stream(name + '-generated', [f'locale {GENERATED_OPS[op]} {to_arg(x)}' for x in inputs], outs)
            return [inputs[i] for i in dis], outs
        dis_parse, outs = stream('locale-parse', 'parse', names_in, C.impl_parse)
        chk.note_cases({o for o in outs if o.startswith('ok')})
        d2, _ = stream('locale-parse-small-scope', 'parse', small, C.impl_parse)
        dis_parse += d2
        accepted = [s for s in names_in + small if C.ref_parse(s) is not None]
        dis_fix, outs = stream('locale-fix', 'fix', accepted, C.impl_fix)
        chk.note_cases({o for o in outs if o.startswith('ok')})
        stream('locale-lookup', 'lookup', codes, C.impl_lookup)
        stream('locale-territory', 'territory', terrs, C.impl_territory)
        ok_names = [s for s in names_in if C.ref_parse(s) is not None]
        pairs = []
        for _ in range(3000 if big else 600):
            a = rng.choice(ok_names)
            r = rng.random()
            if r < 0.3:
                b = a
            elif r < 0.6:
                ll = a.split('_')[0].split('.')[0].split('@')[0]
                b = rng.choice([ll, ll + '_' + rng.choice(T['territories']), a.replace('_', '_X', 1)[:len(a)], a.split('@')[0], a.split('.')[0]])
            else:
                b = rng.choice(ok_names)
            pairs.append((a, b))
        pairs += [('pl', 'pl_PL'), ('pl_PL', 'pl'), ('pl_PL', 'pl_DE'), ('de_DE', 'de_AT'), ('de', 'de_DE'), ('pt', 'pt_BR'), ('pt_PT', 'pt'), ('en', 'en_US'),
                  ('pl_PL.UTF-8', 'pl'), ('pl_PL@euro', 'pl@euro'), ('xx_PL', 'xx')]
        pairs = [p for p in pairs if C.ref_parse(p[1]) is not None]
        stream('locale-almost-equal', 'almost', pairs, C.impl_almost, to_arg=lambda p: C.hexs(p[0]) + ' ' + C.hexs(p[1]))
        stream('locale-munch', 'munch', munch_in, C.impl_munch)
        stream('locale-name', 'name-raw', lang_names + munch_in[:1000], C.impl_name)
        dis_cli, _ = stream('locale-cli', 'cli', cli_values, C.impl_cli)
        stream('locale-normpath', 'normpath', [p for p in paths if '\x00' not in p], C.impl_normpath)
        stream('locale-splitext', 'splitext', paths, C.impl_splitext)
        lines = [C.check_line(c) for c in cases]
        outs = [C.impl_check(c) for c in cases]
        dis, _ = chk.stream('check-language', lines, outs)
        dis_cases = [cases[i] for i in dis]
        chk.note_cases(set(outs))
        hist = {}
        for o in outs:
            for t in (o.split(' tags=')[1].split(';') if ' tags=' in o else ['<crash>']):
                k = t.split('(')[0] or '<none>'
                hist[k] = hist.get(k, 0) + 1
        chk.coverage['check_language_tag_histogram'] = hist
        src = {}
        for c in cases:
            try:
                o = C.ref_outside_source(c[1], c[2])
            except Exception:
                o = 'reference-failed'
            k = 'none' if o is None else (o if isinstance(o, str) else ('option' if o[1] == 'command-line' else ('LC_MESSAGES' if o[2] else 'basename')))
            src[k] = src.get(k, 0) + 1
        chk.coverage['check_language_outside_source'] = src
        chk.coverage['check_language_model_nontrivial_fraction'] = round(sum(1 for o in outs if 'tags=' in o and not o.endswith('tags=')) / max(len(outs), 1), 3)
        # end to end: the real CLI in a subprocess on real files vs the model (glue: header parsing, option handling, template flag)
        e2e = C.e2e_cases(rng, (240 if big else 36) * (2 if chk.broken else 1))
        e2e_impl = C.run_e2e(e2e)
        e2e_model = [C.render_model_line(o) for o in common.run_driver([C.check_line(c) for c in e2e])]
        e2e_dis = [i for i, (a, b) in enumerate(zip(e2e_impl, e2e_model)) if a != b]
        chk.coverage['streams']['e2e-cli'] = {'cases': len(e2e), 'disagreements': len(e2e_dis),
                                              'outcomes': {'ok': sum(1 for o in e2e_impl if o.startswith('ok')), 'err': sum(1 for o in e2e_impl if not o.startswith('ok'))}}
        chk.evaluations += len(e2e)
        for i in e2e_dis[:5]:
            chk.broken.append({'kind': 'correspondence', 'stream': 'e2e-cli', 'case': e2e[i], 'impl': e2e_impl[i], 'model': e2e_model[i]})
        dis_cases += [e2e[i] for i in e2e_dis]
    else:
        dis_parse, dis_fix, dis_cli, dis_cases = [], [], [], []
        chk.broken.append({'kind': 'correspondence', 'stream': 'locale-*', 'problem': 'driver could not be rebuilt from the regenerated model'})

    # ---------------- falsifier: the property as stated, on the real code, against the independent reference
    tried = 0
    found = None
    def sweep(items, prop):
        nonlocal tried, found
        for x in items:
            tried += 1
            rep = prop(x)
            if rep is None:
                continue
            key = rep.pop('key')
            if chk.violation(rep['kind'], rep, key=key) and found is None:
                found = rep
                return True
        return False
    (sweep(dis_parse + names_in + small, C.prop_parse)
        or sweep(dis_fix + [s for s in names_in if C.ref_parse(s) is not None], C.prop_fix)
        or sweep(munch_in, C.prop_munch)
        or sweep(lang_names, C.prop_name)
        or sweep(dis_cli + cli_values, C.prop_cli)
        or sweep(dis_cases + cases, C.prop_check))
    chk.evaluations += tried
    chk.coverage['falsifier'] = {'inputs_vs_reference': tried, 'found': found is not None}
    chk.coverage['inputs'] = {'locale_strings': len(names_in), 'small_scope_strings': len(small), 'codes': len(codes), 'territories': len(terrs),
                              'language_names': len(lang_names), 'option_values': len(cli_values), 'paths': len(paths), 'check_language_cases': len(cases),
                              'accepted_by_reference_grammar': sum(1 for s in names_in if C.ref_parse(s) is not None)}
    if found is None and chk.broken and not chk.violations:
        chk.violation('proof obligation or correspondence no longer checks', {'broken': chk.broken}, no_input=True)
    chk.finish(
        level='proof',
        rule='locale strings: grammar-directed from the tool\'s own ISO tables (known/unknown/three-letter codes, territories, encodings, modifiers) '
             'with one- and two-edit mutants (newline, blanks, case, Unicode look-alikes), strings generated by walking the CURRENT re._parser tree of '
             '_language_regexp with boundary repeat counts and near misses, a fixed boundary list, and every string of length <= 4 (quick) / 6 '
             '(thorough) over {a,B,_,.,@,\\n,0,-}; code look-ups: all [a-z]{2,3}, all [A-Z]{2}; language names: every table name and 15 kinds of variant; '
             'check_language: option x path shape x Language x X-Poedit-* classes (fixed product + random, incl. LC_MESSAGES/basename/LibreOffice/normpath shapes); '
             'non-trivial = distinct canonical outcome',
        trusted=['Lean 4.33 kernel', 'axioms: propext, Classical.choice, Quot.sound only',
                 'tools/translate/locale2lean.py (dumps lib.ling tables as loaded and converts the re._parser tree of _language_regexp to an Re term)',
                 'tie by translation + proof: tools/translate/linglang2lean.py (over tools/translate/pytr core + objfn) is trusted; the kit Model/LingLangPy.lean is shared by both '
                 'sides of the equalities (the scanner standing for _language_regexp.match, str.upper on ASCII, the dumped tables); class Language, parse_language and the '
                 'code look-ups regenerated from the current lib/ling.py are PROVED equal to the model (Props/C19Tie.lean) and run against CPython in the *-generated streams',
                 'Spec.LocaleRe.Matches as the meaning of pattern.match for this look-around-free fragment',
                 '_munch_language_name is a parameter of the model; the harness computes it with str.split/lower and unicodedata directly',
                 'the correspondence harness (tools/checks/locale_common.py, Driver/Locale.lean)'],
        explanation=EXPLANATION)

EXPLANATION = (
    'Proved for ALL inputs (Props/C19.lean): clause 1 - regex_pin (the re._parser tree of _language_regexp, regenerated each run, is the '
    'locale grammar anchored with \\Z), parse_iff_grammar / parse_iff_locale_name (accepted iff in the language of the regex iff '
    'll[_CC][.encoding][@modifier]), print_parse / print_parse_exact / print_parse_upper / parse_print / parse_str_parse / parse_wf / '
    'render_injective (round trips up to the case of the encoding; the grammar is unambiguous); clause 2 - fix_codes_spec, '
    'fix_codes_three_to_two, fix_codes_rejects, fix_codes_idempotent (general lemma + kernel-checked side conditions on the generated '
    '617-key table), iso_tables_loaded + fix_codes_by_data (the loaded tables are what the modelled _read_iso_codes loop builds from '
    'the rows of data/iso-codes); clause 3 - language_tags_iff (whenever check_language returns, its tags with extras and order and '
    'ctx.language equal the reference verdict Spec.LocaleTags, for every option / path / Language / X-Poedit-* values and every '
    'munch function), cli_language_spec, source_precedence, language_disparity_iff, invalid_language_iff, unable_to_determine_iff, '
    'encoding_and_variant_iff, poedit_and_absent_iff, '
    'final_language_none_iff, name_correction_sound/complete, almost_equal_equivalence; NoCrash - check_language_error_kinds, '
    'check_language_nocrash and language_tags_total (every path, also under --file-type: no hypothesis since /repo d16b49e), leaf_error_kinds. OUTSTANDING: nothing of the design list. '
    'TEST-LEVEL ONLY: the models of os.path.normpath/basename/splitext, the Unicode tables behind _munch_language_name, and that '
    'Spec.LocaleRe.Matches is what CPython re decides - all tied by the correspondence streams; header parsing into ctx.metadata belongs to C15 '
    '(covered here by the e2e-cli stream on real files). FINDINGS (both fixed in /repo, re-found by this check on the unfixed tree): '
    "parse_language('pl\\n') accepted (6815428); '/None/' in the path dropped the base-name language when the Language field had unknown codes (06a1780). "
    "Found by C01: AssertionError for base names '.po', '..po' under --file-type po (d16b49e); the model follows the fix. "
    'TIE BY TRANSLATION (Props/C19Tie.lean): Generated/Ling.lean is rewritten from the current lib/ling.py on every run (class Language: __init__, clone, __eq__, __ne__, is_almost_equal, '
    'fix_codes, remove_principal_territory_code, remove_encoding, remove_nonlinguistic_modifier, __str__; parse_language; the two code look-ups) and proved equal to the model for all inputs '
    '(generated_*_eq_model), with clauses 1 and 2 restated about the regenerated definitions (*_generated); is_almost_equal goes through clone() = the constructor, so its equality with '
    'isAlmostEqual is on objects with an upper-cased encoding (enc_upper_invariant: everything the code constructs); get_language_for_name, _munch_language_name, the loader, the -l handling and '
    'check_language remain correspondence-only.')

if __name__ == '__main__':
    common.main_wrapper(main)
