#!/venv/bin/python
"""Run loader operations of the REAL code in a process with no loading history (C10: history independence).

  po_fresh.py run      one JSON list of ops on stdin -> executes them in order in THIS new process, one JSON list of results
  po_fresh.py server   one JSON list of ops per stdin line -> each list runs in a child forked from a pristine parent
                       (modules imported, patches installed, nothing loaded yet), one JSON list of results per line

ops: {"op": "load", "hex": …, "enc": null | name} | {"op": "unescape", "enc": name, "s": text} | {"op": "check", "hex": …}
     | {"op": "preprocess", "text": …} | {"op": "detect", "hex": …}
"""
import json, os, sys
sys.path.insert(0, os.path.dirname(os.path.abspath(__file__)))
import po_common as P

def run_op(op):
    k = op['op']
    if k == 'load':
        data = bytes.fromhex(op['hex'])
        kind, v, stderr = P.real_load(data, op.get('enc'), record=False)
        if kind == 'ok':
            try:
                return {'canon': P.canon_file(v), 'stderr': stderr, 'tuple': P.tuple_json(P.loaded_tuple(v)),
                        'translated': [bool(e.translated()) for e in v], 'intkeys': all(type(k) is int for e in v for k in e.msgstr_plural.keys())}
            except Exception as exc:
                return {'canon': 'err crash-canon ' + type(exc).__name__, 'stderr': stderr}
        return {'canon': P.canon_error(v), 'stderr': stderr, 'error': repr(v)[:200]}
    if k == 'unescape':
        r, stderr, exc = P.impl_unescape(op['enc'], op['s'], record=False)
        return {'canon': r, 'stderr': stderr}
    if k == 'check':
        r = P.impl_check(bytes.fromhex(op['hex']), record=False, want_file=True)
        if isinstance(r, tuple):
            canon, v = r
            return {'canon': canon, 'tuple': P.tuple_json(P.loaded_tuple(v)), 'translated': [bool(e.translated()) for e in v],
                    'intkeys': all(type(k) is int for e in v for k in e.msgstr_plural.keys())}
        return {'canon': r}
    if k == 'preprocess':
        return {'canon': P.impl_preprocess(op['text'], record=False)}
    if k == 'detect':
        return {'canon': P.impl_detect(bytes.fromhex(op['hex']), record=False)}
    return {'canon': 'bad-op'}

def run_ops(ops):
    out = []
    for op in ops:
        try:
            out.append(run_op(op))
        except BaseException as exc:
            if isinstance(exc, (KeyboardInterrupt, SystemExit)):
                raise
            out.append({'canon': 'err harness ' + type(exc).__name__})
    return out

def main():
    mode = sys.argv[1] if len(sys.argv) > 1 else 'run'
    P.env()
    if mode == 'run':
        print(json.dumps(run_ops(json.loads(sys.stdin.read()))))
        return
    for line in sys.stdin:
        if not line.strip():
            continue
        ops = json.loads(line)
        r, w = os.pipe()
        pid = os.fork()
        if pid == 0:
            os.close(r)
            try:
                res = json.dumps(run_ops(ops))
            except BaseException as exc:
                res = json.dumps([{'canon': 'err harness ' + type(exc).__name__}])
            with os.fdopen(w, 'w') as f:
                f.write(res)
            os._exit(0)
        os.close(w)
        with os.fdopen(r) as f:
            res = f.read()
        os.waitpid(pid, 0)
        sys.stdout.write((res or '[]') + '\n')
        sys.stdout.flush()

if __name__ == '__main__':
    main()
