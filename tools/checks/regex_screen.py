"""Structural screen of every regular expression reachable from lib.* + pump strings + direct timing (search aid for C01).

1. inventory: compiled patterns in module globals / class attributes / function defaults and closures / bound methods of
   patterns (`re.compile(…).match`), plus every pattern compiled by code of REPO/lib while a sample of files is checked
   (a recorder around `re._compile` catches the inline `re.search(r'…', x)` calls and the patterns assembled at run time);
2. screen: parse tree (`re._parser`) → unbounded repeats whose body contains another unbounded repeat or an alternation
   (star height ≥ 2: the shape of catastrophic backtracking; also matched by harmless patterns — it is a screen);
3. pump: for each screened repeat a matching string with that repeat expanded N times, followed by characters that make the
   overall match fail; N grows until one call takes 0.3 s; growth exponent from the last points.
Everything runs in a child process with a wall-clock limit (a regex call cannot be interrupted)."""
import multiprocessing, os, re, sys, time, types, importlib, pkgutil, math
try:
    import re._parser as sre_parse, re._constants as sre_c
except ImportError:          # Python < 3.11
    import sre_parse, sre_constants as sre_c
sys.path.insert(0, os.path.join(os.path.dirname(os.path.abspath(__file__)), '..'))
import common

UNBOUNDED = sre_c.MAXREPEAT

def inventory(sample_files=()):
    """{(pattern, flags): [where, …]} of everything reachable; `sample_files` = [(bytes, ext)] checked with the recorder on"""
    common.setup_repo_import()
    import checker_harness as H
    H.ready()
    import lib
    seen = {}
    def note(p, where):
        if isinstance(p, re.Pattern):
            seen.setdefault((p.pattern, p.flags), [])
            if where not in seen[(p.pattern, p.flags)]:
                seen[(p.pattern, p.flags)].append(where)
    def scan(o, where, depth=0):
        note(o, where)
        if getattr(o, '__self__', None) is not None:
            note(o.__self__, where)
        if isinstance(o, types.FunctionType):
            for d in (o.__defaults__ or ()):
                scan(d, where + ':default', depth + 1)
            for d in (o.__kwdefaults__ or {}).values():
                scan(d, where + ':default', depth + 1)
            for c in (o.__closure__ or ()):
                try:
                    scan(c.cell_contents, where + ':closure', depth + 1)
                except ValueError:
                    pass
        if depth < 2:
            if isinstance(o, type) and str(getattr(o, '__module__', '')).startswith('lib'):
                for k, v in list(vars(o).items()):
                    scan(v, where + '.' + k, depth + 1)
            elif isinstance(o, dict):
                for v in list(o.values())[:200]:
                    scan(v, where + '[]', depth + 1)
            elif isinstance(o, (list, tuple, set, frozenset)):
                for v in list(o)[:200]:
                    scan(v, where + '[]', depth + 1)
    for m in pkgutil.walk_packages(lib.__path__, 'lib.'):
        try:
            mod = importlib.import_module(m.name)
        except Exception:
            continue
        for k, v in list(vars(mod).items()):
            if not isinstance(v, types.ModuleType):
                scan(v, m.name + '.' + k)
    # run-time recorder
    libdir = os.path.join(os.path.realpath(common.REPO), 'lib') + os.sep
    orig = re._compile
    def recorder(pattern, flags):
        p = orig(pattern, flags)
        try:
            f = sys._getframe(2)
            fn = os.path.realpath(f.f_code.co_filename)
            if fn.startswith(libdir):
                note(p, 'runtime:' + os.path.relpath(fn, os.path.realpath(common.REPO)) + ':' + f.f_code.co_name)
        except Exception:
            pass
        return p
    import tempfile
    re._compile = recorder
    try:
        re.purge()
        with tempfile.TemporaryDirectory(prefix='i18n-verif-rx.') as d:
            for i, (data, ext) in enumerate(sample_files):
                path = os.path.join(d, 'pl%d%s' % (i, ext))
                with open(path, 'wb') as f:
                    f.write(data)
                checker, _calls = H.make_checker(path)
                try:
                    checker.check()
                except BaseException:   # noqa
                    pass
    finally:
        re._compile = orig
    return seen

# ----------------------------------------------------------------------------- screen

def _children(op, av):
    """sub-sequences of a parse node"""
    if op in (sre_c.MAX_REPEAT, sre_c.MIN_REPEAT, getattr(sre_c, 'POSSESSIVE_REPEAT', None)):
        return [av[2]]
    if op is sre_c.SUBPATTERN:
        return [av[3]]
    if op is sre_c.BRANCH:
        return list(av[1])
    if op in (sre_c.ASSERT, sre_c.ASSERT_NOT):
        return [av[1]]
    if op is getattr(sre_c, 'ATOMIC_GROUP', None):
        return [av]
    if op is sre_c.GROUPREF_EXISTS:
        return [x for x in av[1:] if x is not None]
    return []

def _is_repeat(op):
    return op in (sre_c.MAX_REPEAT, sre_c.MIN_REPEAT)

def _contains_unbounded(seq):
    for op, av in seq:
        if _is_repeat(op) and av[1] == UNBOUNDED:
            return True
        for ch in _children(op, av):
            if _contains_unbounded(ch):
                return True
    return False

def _contains_branch(seq):
    for op, av in seq:
        if op is sre_c.BRANCH:
            return True
        for ch in _children(op, av):
            if _contains_branch(ch):
                return True
    return False

def screen(pattern, flags):
    """→ list of (path to the outer repeat node, reason)"""
    try:
        tree = sre_parse.parse(pattern, flags)
    except Exception:
        return None, []
    hits = []
    def walk(seq, path):
        for i, (op, av) in enumerate(seq):
            here = path + (i,)
            if _is_repeat(op) and av[1] == UNBOUNDED:
                body = av[2]
                if _contains_unbounded(body):
                    hits.append((here, 'unbounded repeat inside an unbounded repeat'))
                elif _contains_branch(body) and len(body) >= 1 and not (len(body) == 1 and body[0][0] is sre_c.IN):
                    hits.append((here, 'alternation inside an unbounded repeat'))
            for k, ch in enumerate(_children(op, av)):
                walk(ch, here + (('c', k),))
    walk(tree, ())
    return tree, hits

# ----------------------------------------------------------------------------- sampling

CANDS = 'a0 x_-.A1%{}[]()<>:;,=+*/!?"\'\\#@&|~^$\n\t\u00e4\u0661'

def _sample_in(av, flags):
    """a character matching a character class"""
    try:
        pat = sre_parse.SubPattern(sre_parse.State())
    except Exception:
        pat = None
    neg = any(op is sre_c.NEGATE for op, _ in av)
    def matches(ch):
        o = ord(ch)
        ok = False
        for op, a in av:
            if op is sre_c.LITERAL and a == o:
                ok = True
            elif op is sre_c.RANGE and a[0] <= o <= a[1]:
                ok = True
            elif op is sre_c.CATEGORY:
                name = str(a)
                t = {'CATEGORY_DIGIT': ch.isdigit(), 'CATEGORY_NOT_DIGIT': not ch.isdigit(), 'CATEGORY_SPACE': ch.isspace(),
                     'CATEGORY_NOT_SPACE': not ch.isspace(), 'CATEGORY_WORD': ch.isalnum() or ch == '_',
                     'CATEGORY_NOT_WORD': not (ch.isalnum() or ch == '_')}.get(name, False)
                ok = ok or t
        return ok != neg
    for ch in CANDS:
        if matches(ch):
            return ch
    for o in range(32, 300):
        if matches(chr(o)):
            return chr(o)
    return 'a'

def sample(seq, flags, pump_path, n, path=()):
    """a string matching `seq`, with the repeat at `pump_path` taken n times"""
    out = []
    for i, (op, av) in enumerate(seq):
        here = path + (i,)
        if op is sre_c.LITERAL:
            out.append(chr(av))
        elif op is sre_c.NOT_LITERAL:
            out.append('a' if av != ord('a') else 'b')
        elif op is sre_c.ANY:
            out.append('a')
        elif op is sre_c.IN:
            out.append(_sample_in(av, flags))
        elif _is_repeat(op) or op is getattr(sre_c, 'POSSESSIVE_REPEAT', None):
            lo, hi, body = av
            on_path = pump_path[:len(here)] == here          # the pumped repeat lies inside this one
            inside = here[:len(pump_path)] == pump_path      # this one lies inside the pumped repeat
            k = n if pump_path == here else (max(lo, 1) if (on_path or inside) else lo)
            if k > hi:
                k = hi
            one = sample(body, flags, pump_path, n, here + (('c', 0),))
            if pump_path == here:
                # inner unbounded repeats once each; the OUTER one n times
                out.append(one * k)
            else:
                out.append(one * k)
        elif op is sre_c.SUBPATTERN:
            out.append(sample(av[3], flags, pump_path, n, here + (('c', 0),)))
        elif op is sre_c.BRANCH:
            alts = av[1]
            pick = 0
            for k in range(len(alts)):
                if pump_path[:len(here) + 1] == here + (('c', k),):
                    pick = k
            out.append(sample(alts[pick], flags, pump_path, n, here + (('c', pick),)))
        elif op is getattr(sre_c, 'ATOMIC_GROUP', None):
            out.append(sample(av, flags, pump_path, n, here + (('c', 0),)))
        # AT, ASSERT, ASSERT_NOT, GROUPREF, …: contribute nothing
    return ''.join(out)

KILLERS = ['', '\x00', '!', '\n', '{', '%', ';', ' \x00']

def pump_strings(tree, flags, hit_path, n):
    base = sample(tree, flags, hit_path, n)
    res = []
    for k in KILLERS:
        res.append(base + k)
    if base:
        res.append(base[:-1])
    return res

def _time_call(pat, s):
    best = 0.0
    for fn in (pat.search, pat.match, pat.fullmatch, lambda x: sum(1 for _ in pat.finditer(x))):
        t0 = time.perf_counter()
        try:
            fn(s)
        except Exception:
            pass
        best = max(best, time.perf_counter() - t0)
        if best > 2.0:
            break
    return best

def measure(pattern, flags, tree, hit_path, progress):
    """→ dict(exponent, points, string) for the worst killer"""
    pat = re.compile(pattern, flags)
    worst = None
    for ki in range(len(KILLERS) + 1):
        pts = []
        n = 8
        while n <= 40000:
            strs = pump_strings(tree, flags, hit_path, n)
            if ki >= len(strs):
                break
            s = strs[ki]
            if len(s) > 150000:
                break
            progress(pattern, n)
            t = _time_call(pat, s)
            pts.append((n, len(s), t))
            if t > 0.3:
                break
            n = int(n * 1.5) + 1 if t < 0.005 else n + max(2, n // 8)
        if len(pts) >= 2 and pts[-1][2] >= 0.25 and min(_time_call(pat, strs[ki]) for _ in range(2)) >= 0.2:      # reached the 0.3 s budget (twice over: not a scheduling hiccup)
            (n2, l2, t2) = pts[-1]
            half = [q for q in pts[:-1] if q[1] * 2 <= l2] or [pts[0]]
            (n1, l1, t1) = half[-1]
            t1 = max(t1, 2e-5)
            expo = math.log(max(t2 / t1, 1e-9)) / math.log(max(l2, 2) / max(l1, 1)) if l2 > l1 else 0.0
            cand = {'exponent': round(expo, 2), 'points': [(a, b, round(c, 4)) for a, b, c in pts[-4:]], 'killer': KILLERS[ki] if ki < len(KILLERS) else '<truncated>',
                    'string_n': n2, 'time_s': round(t2, 3)}
            if worst is None or cand['exponent'] > worst['exponent']:
                worst = cand
    return worst

def _child(q, sample_files, progress_path):
    try:
        inv = inventory(sample_files)
        res = {'patterns': len(inv), 'screened': [], 'all': [{'pattern': repr(p)[:200], 'flags': f, 'where': w[:3]} for (p, f), w in sorted(inv.items(), key=lambda kv: repr(kv[0][0]))]}
        def progress(pattern, n):
            with open(progress_path, 'w') as f:
                f.write(repr(pattern)[:300] + ' n=%d' % n)
        for (p, f), where in sorted(inv.items(), key=lambda kv: repr(kv[0][0])):
            if isinstance(p, bytes):
                continue
            tree, hits = screen(p, f)
            for hi, (hp, reason) in enumerate(hits):
                m = measure(p, f, tree, hp, progress)
                res['screened'].append({'pattern': p, 'flags': f, 'where': where[:3], 'reason': reason, 'measure': m, 'hit_index': hi,
                                        'pump': (sample(tree, f, hp, 6)[:120])})
        q.put(res)
    except BaseException as exc:   # noqa
        import traceback
        q.put({'error': traceback.format_exc()[-1500:]})

class Screen:
    """the screen in a child process: start early, `result()` when needed"""
    def __init__(self, sample_files, limit_s=75):
        import tempfile
        fd, self.progress_path = tempfile.mkstemp(prefix='i18n-verif-rxp.')
        os.close(fd)
        self.limit_s = limit_s
        self.t0 = time.time()
        self.q = multiprocessing.Queue()
        self.pr = multiprocessing.Process(target=_child, args=(self.q, sample_files, self.progress_path))
        self.pr.start()

    def result(self):
        """→ result dict, or {'hang': '<pattern in progress>'}"""
        try:
            try:
                res = self.q.get(timeout=max(1.0, self.limit_s - (time.time() - self.t0)))
            except Exception:
                self.pr.terminate()
                try:
                    where = open(self.progress_path).read()
                except OSError:
                    where = '?'
                return {'hang': where}
            self.pr.join(5)
            return res
        finally:
            if self.pr.is_alive():
                self.pr.terminate()
            try:
                os.unlink(self.progress_path)
            except OSError:
                pass

def run(sample_files, limit_s=75):
    return Screen(sample_files, limit_s).result()

def pump_for(pattern, flags, reason_index, n, killer):
    """the pump string of the k-th screened repeat of a pattern, at size n"""
    tree, hits = screen(pattern, flags)
    hp, _ = hits[reason_index]
    return sample(tree, flags, hp, n) + killer

if __name__ == '__main__':
    import json
    r = run([(b'msgid ""\nmsgstr "Content-Type: text/plain; charset=UTF-8\\n"\n\n#. type: Content of: <para>\n#, range: 1..2\nmsgid "a"\nmsgstr "b"\n', '.po')])
    print(json.dumps({k: v for k, v in r.items() if k != 'all'}, indent=1, default=str)[:6000])
    print(len(r.get('all', [])))
