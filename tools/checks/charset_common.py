"""C20: the real code canonically (classification, codec search, charmap codecs, the iconv binding under a scripted and under
the real iconv, unrepresentable characters, the charset fragment of check_headers), an independent iconv(3) reference,
correspondence streams (`charset`), and the falsifier on the real code."""
import codecs, collections, ctypes, errno, json, os, subprocess, sys, types, warnings
sys.path.insert(0, os.path.join(os.path.dirname(os.path.abspath(__file__)), '..'))
import common
from gen import charset as G

common.setup_repo_import()
warnings.simplefilter('ignore')

# ------------------------------------------------------------------ the modules under test

_MODS = None
IMPORT_ERROR = None

def mods():
    """(lib.encodings, lib.iconv, lib.ling) of the repository under test, with the tool's codecs installed;
    a module that cannot be imported becomes a stand-in whose every attribute raises"""
    global _MODS, IMPORT_ERROR
    if _MODS is None:
        class Broken:
            def __init__(self, err):
                self._err = err
            def __getattr__(self, name):
                err = self._err
                def raiser(*a, **k):
                    raise RuntimeError(f'module cannot be imported: {type(err).__name__}: {err}')
                return raiser
        res = []
        for name in ('encodings', 'iconv', 'ling'):
            try:
                res.append(__import__('lib.' + name, fromlist=['x']))
            except BaseException as exc:
                IMPORT_ERROR = f'lib.{name}: {type(exc).__name__}: {exc}'
                res.append(Broken(exc))
        _MODS = tuple(res)
        try:
            _MODS[0].install_extra_encodings()
        except BaseException as exc:
            IMPORT_ERROR = IMPORT_ERROR or f'install_extra_encodings: {type(exc).__name__}: {exc}'
    return _MODS

def hexchars(s):
    return '.'.join('%x' % ord(c) for c in s) if s else '-'

def hexbytes(b):
    return bytes(b).hex() if b else '-'

def crash(exc):
    return 'CRASH:' + type(exc).__name__

HUNG = set()        # codec names on which the real code once failed to return: later calls fail at once (same outcome, no waiting)

def timed(name, fn, seconds=20):
    """fn() under a wall-clock deadline; a codec that hung once is not waited for again in this run"""
    k = str(name).lower().replace('_', '-')
    if k in HUNG:
        raise common.Hang(f'{name}: did not return earlier in this run')
    try:
        with common.deadline(seconds):
            return fn()
    except common.Hang:
        HUNG.add(k)
        raise

# ------------------------------------------------------------------ independent facts about the environment

_VANILLA = r'''
import sys, json, codecs
names = json.load(sys.stdin)
res = []
for n in names:
    try:
        codecs.lookup(n); res.append(True)
    except Exception:
        res.append(False)
json.dump(res, sys.stdout)
'''

def vanilla_ships(names):
    """does the interpreter, without any tool code imported, find a codec for each name"""
    names = list(names)
    p = subprocess.run([common.PY, '-I', '-c', _VANILLA], input=json.dumps(names), capture_output=True, text=True, timeout=120)
    if p.returncode != 0:
        raise common.Infra('vanilla codec probe failed: ' + p.stderr[-400:])
    return dict(zip(names, json.loads(p.stdout)))

def python_codec_names():
    import pkgutil, encodings as pyenc, encodings.aliases as al
    names = {m.name for m in pkgutil.iter_modules(pyenc.__path__)}
    names |= set(al.aliases.keys()) | set(al.aliases.values())
    return names

def lookup_name(name):
    """`codecs.lookup(name).name`, asked directly; None = LookupError"""
    try:
        return codecs.lookup(name).name
    except LookupError:
        return None
    except Exception:
        return None

def dec_outcome(name, data=G.ASCII_REPERTOIRE):
    """outcome of `data.decode(name)`, asked directly: the wire form of `Dec`"""
    try:
        with common.deadline(20):
            r = data.decode(name)
    except UnicodeDecodeError:
        return 'U', None
    except LookupError:
        return 'L', None
    except Exception:
        return 'O', None
    if not isinstance(r, str):
        return 'N', None
    return 'T' + hexchars(r), r

def usable_text_codec(name):
    """reference for 'a usable text codec exists': the registry has it, it is a text encoding, and decoding the ASCII
    repertoire yields text or a UnicodeDecodeError"""
    try:
        ci = codecs.lookup(name)
    except Exception:
        return False
    if not getattr(ci, '_is_text_encoding', True):
        return False
    return dec_outcome(name)[0][0] in 'TU'

class RefIconv:
    """a minimal iconv(3) binding of the harness's own (generous fixed buffers), independent of lib/iconv.py"""
    def __init__(self):
        self.libc = ctypes.CDLL(None, use_errno=True)
        self.ok = all(hasattr(self.libc, f) for f in ('iconv_open', 'iconv', 'iconv_close'))
        if self.ok:
            self.libc.iconv_open.argtypes = [ctypes.c_char_p, ctypes.c_char_p]
            self.libc.iconv_open.restype = ctypes.c_void_p
            self.libc.iconv.argtypes = [ctypes.c_void_p, ctypes.POINTER(ctypes.c_void_p), ctypes.POINTER(ctypes.c_size_t),
                                        ctypes.POINTER(ctypes.c_void_p), ctypes.POINTER(ctypes.c_size_t)]
            self.libc.iconv.restype = ctypes.c_size_t
            self.libc.iconv_close.argtypes = [ctypes.c_void_p]
        self.cds = {}

    # conversions whose descriptor may be kept: nothing in them survives `iconv(cd, NULL, NULL, NULL, NULL)`.  glibc's UTF-16 / UTF-32 /
    # UCS-2 / UNICODE decoders remember the byte order a BOM once selected ACROSS a reset, so a cached descriptor answers later inputs
    # differently from the fresh one lib/iconv.py opens for every call: those get a fresh descriptor per conversion (closed by `convert`).
    KEEP = {'EUC-TW', 'KOI8-T', 'KOI8-RU', 'VISCII', 'GEORGIAN-PS', 'UTF-8', 'UTF-32LE', 'WCHAR_T', 'ISO-8859-1', 'CP1252'}

    def cd(self, to, frm):
        key = (to, frm)
        if to.upper() not in self.KEEP or frm.upper() not in self.KEEP:
            if self.cds.get(key, 0) is None:
                return None
            h = self.libc.iconv_open(to.encode('ascii'), frm.encode('ascii'))
            if h is None or h == ctypes.c_void_p(-1).value:
                self.cds[key] = None
                return None
            self.fresh = h
            return h
        if key not in self.cds:
            h = self.libc.iconv_open(to.encode('ascii'), frm.encode('ascii'))
            self.cds[key] = None if (h is None or h == ctypes.c_void_p(-1).value) else h
        return self.cds[key]

    def available(self, to, frm):
        cd = self.cd(to, frm)
        if cd is None:
            return False
        self.release(cd)
        return True

    def release(self, cd):
        if getattr(self, 'fresh', None) == cd and cd is not None:
            self.libc.iconv_close(cd)
            self.fresh = None

    def convert(self, to, frm, data):
        """{'rc': ok|eilseq|einval|e2big|errno N|unavailable, 'consumed', 'main': bytes, 'flush': bytes}"""
        if not self.ok:
            return {'rc': 'unavailable'}
        cd = self.cd(to, frm)
        if cd is None:
            return {'rc': 'unavailable'}
        try:
            return self._convert(cd, data)
        finally:
            self.release(cd)

    def _convert(self, cd, data):
        M1 = ctypes.c_size_t(-1).value
        self.libc.iconv(cd, None, None, None, None)
        cap = 8 * len(data) + 64
        src = ctypes.create_string_buffer(bytes(data), len(data) + 1)
        dst = ctypes.create_string_buffer(cap)
        inp = ctypes.c_void_p(ctypes.addressof(src))
        outp = ctypes.c_void_p(ctypes.addressof(dst))
        inleft = ctypes.c_size_t(len(data))
        outleft = ctypes.c_size_t(cap)
        rc = self.libc.iconv(cd, ctypes.byref(inp), ctypes.byref(inleft), ctypes.byref(outp), ctypes.byref(outleft))
        err = ctypes.get_errno()
        nmain = cap - outleft.value
        res = {'consumed': len(data) - inleft.value, 'main': dst.raw[:nmain], 'flush': b''}
        if rc == M1:
            res['rc'] = {errno.EILSEQ: 'eilseq', errno.EINVAL: 'einval', errno.E2BIG: 'e2big'}.get(err, f'errno {err}')
            return res
        rc = self.libc.iconv(cd, None, None, ctypes.byref(outp), ctypes.byref(outleft))
        err = ctypes.get_errno()
        res['flush'] = dst.raw[nmain:cap - outleft.value]
        res['rc'] = 'ok' if rc != M1 else {errno.EILSEQ: 'eilseq', errno.EINVAL: 'einval', errno.E2BIG: 'e2big'}.get(err, f'errno {err}')
        return res

    def decode(self, enc, data):
        """('ok', str) | ('err', consumed) | ('unavailable',)"""
        r = self.convert('UTF-32LE', enc, data)
        if r['rc'] == 'unavailable':
            return ('unavailable',)
        if r['rc'] != 'ok':
            return ('err', r['consumed'])
        return ('ok', (r['main'] + r['flush']).decode('utf-32-le', 'surrogatepass'))

    def encode(self, enc, text):
        r = self.convert(enc, 'UTF-32LE', text.encode('utf-32-le', 'surrogatepass'))
        if r['rc'] == 'unavailable':
            return ('unavailable',)
        if r['rc'] != 'ok':
            return ('err', r['consumed'] // 4)
        return ('ok', r['main'] + r['flush'])

_REF = None
def ref():
    global _REF
    if _REF is None:
        _REF = RefIconv()
    return _REF

def iconv_cli(frm, to, data):
    """the iconv(1) program: (stdout, failed)"""
    p = subprocess.run(['iconv', '-f', frm, '-t', to], input=data, capture_output=True, timeout=30,
                       env=dict(os.environ, LC_ALL='C'))
    return p.stdout, (p.returncode != 0 or p.stderr != b'')

# ------------------------------------------------------------------ the real code, canonically (same grammar as Driver/Charset.lean)

def impl_portable(py, name):
    E = mods()[0]
    try:
        r = E.is_portable_encoding(name, python=bool(py))
    except Exception as exc:
        return crash(exc)
    return '1' if r is True else '0' if r is False else 'CRASH:not-bool'

def impl_propose(name):
    E = mods()[0]
    try:
        r = E.propose_portable_encoding(name)
    except AssertionError:
        return 'assert'
    except Exception as exc:
        return crash(exc)
    return 'none' if r is None else 'some ' + hexchars(r) if isinstance(r, str) else 'CRASH:not-str'

def impl_ascii(missing_ok, name):
    E = mods()[0]
    try:
        r = E.is_ascii_compatible_encoding(name, missing_ok=bool(missing_ok))
    except Exception as exc:
        if type(exc).__name__ == 'EncodingLookupError':
            return 'ELE'
        return crash(exc)
    return '1' if r is True else '0' if r is False else 'CRASH:not-bool'

class _Spy:
    def __init__(self):
        self.called = False
    def decode(self, *a, **k):
        self.called = True
        return ''
    def encode(self, *a, **k):
        self.called = True
        return b''

def impl_search(name):
    """`_codec_search_function(name)`: none / charmap <FILE> / iconv <name> — which kind is decided by behaviour (does the
    codec's decode reach lib.iconv), not by the names of the helper functions"""
    E = mods()[0]
    try:
        ci = E._codec_search_function(name)
    except Exception as exc:
        return crash(exc)
    if ci is None:
        return 'none'
    spy = _Spy()
    real = E.iconv
    E.iconv = spy
    try:
        try:
            ci.decode(b'a')
        except Exception:
            pass
    finally:
        E.iconv = real
    if spy.called:
        return 'iconv ' + hexchars(ci.name)
    return 'charmap ' + hexchars(ci.name.upper())

_CM = {}
def charmap_codec(file):
    E = mods()[0]
    if file not in _CM:
        _CM[file] = E.charmap_encoding(file)
    return _CM[file]

def span_ok(exc, n):
    return isinstance(exc.start, int) and isinstance(exc.end, int) and 0 <= exc.start < exc.end <= n

def impl_cmdecode(file, data):
    try:
        r, k = charmap_codec(file).decode(data)
    except UnicodeDecodeError as exc:
        return f'err {exc.start} {exc.end}'
    except Exception as exc:
        return crash(exc)
    return 'ok ' + hexchars(r)

def impl_cmencode(file, text):
    try:
        r, k = charmap_codec(file).encode(text)
    except UnicodeEncodeError as exc:
        return f'err {exc.start} {exc.end}'
    except Exception as exc:
        return crash(exc)
    return 'ok ' + hexbytes(r)

# ------------------------------------------------------------------ the iconv binding under observation

class OutOfScript(BaseException):
    pass

class Runaway(BaseException):
    """the retry loop of lib/iconv.py called the real iconv more often than any doubling schedule can need"""

MAX_REAL_ROUNDS = 70      # told doubles from n: 70 rounds would mean 2^70 n bytes

class _CtypesProxy:
    """stands for the `ctypes` module inside lib.iconv: records the size of every output buffer allocated"""
    def __init__(self, session):
        self._s = session
    def __getattr__(self, name):
        return getattr(ctypes, name)
    def create_string_buffer(self, *a):
        buf = ctypes.create_string_buffer(*a)
        self._s.last_alloc = ctypes.sizeof(buf)
        return buf
    def create_unicode_buffer(self, *a):
        buf = ctypes.create_unicode_buffer(*a)
        self._s.last_alloc = ctypes.sizeof(buf)
        return buf

M1 = ctypes.c_size_t(-1).value
ERRNO = {'e2big': errno.E2BIG, 'eilseq': errno.EILSEQ, 'einval': errno.EINVAL}

class IconvSession:
    """run lib.iconv's _decode_dl/_encode_dl with the `ctypes` allocation calls observed and `_iconv` either replaced by a
    scripted iconv (rounds given) or merely wrapped (real glibc).  `trace` = [(allocated, told)] per round;
    `overrun` is set if the code told iconv more bytes than it had just allocated."""
    def __init__(self, rounds=None, in_bytes=0):
        self.rounds = rounds
        self.in_bytes = in_bytes
        self.k = -1
        self.trace = []
        self.last_alloc = None
        self.overrun = None
        self.contract_broken = None
        self.recorded = None

    def __enter__(self):
        self.I = mods()[1]
        self.saved = {a: getattr(self.I, a) for a in ('_iconv', '_iconv_open', '_iconv_close', 'ctypes')}
        self.I.ctypes = _CtypesProxy(self)
        real = self.saved['_iconv']
        if self.rounds is not None:
            self.I._iconv_open = lambda to, frm: 4242
            self.I._iconv_close = lambda cd: 0
            self.I._iconv = self.fake
        else:
            self.recorded = []          # rounds as the real iconv answered them: [told, reset, main, flush]
            def wrapped(cd, inpp, inleft, outpp, outleft):
                if inpp is None and outpp is None:
                    rc = real(cd, inpp, inleft, outpp, outleft)
                    err = ctypes.get_errno()
                    self.recorded.append([None, err if rc == M1 else None, ('ok', 0, b''), ('ok', 0, b'')])
                    ctypes.set_errno(err)
                    return rc
                told = outleft._obj.value
                if inpp is not None:
                    self.note(told)
                    if len(self.trace) > MAX_REAL_ROUNDS:
                        raise Runaway()
                    in_before = inleft._obj.value
                addr = ctypes.cast(outpp[0], ctypes.c_void_p).value
                rc = real(cd, inpp, inleft, outpp, outleft)
                err = ctypes.get_errno()
                n = told - outleft._obj.value
                written = ctypes.string_at(addr, n) if 0 <= n <= (self.last_alloc or 0) else b''
                if n < 0 or n > told:
                    self.contract_broken = f'iconv wrote {n} bytes having been told {told}'
                name = 'ok' if rc != M1 else {errno.E2BIG: 'e2big', errno.EILSEQ: 'eilseq', errno.EINVAL: 'einval'}.get(err, str(err))
                if self.recorded:
                    if inpp is not None:
                        self.recorded[-1][0] = told
                        self.recorded[-1][2] = (name, in_before - inleft._obj.value, written)
                    else:
                        self.recorded[-1][3] = (name, 0, written)
                ctypes.set_errno(err)
                return rc
            self.I._iconv = wrapped
        return self

    def __exit__(self, *a):
        for k, v in self.saved.items():
            setattr(self.I, k, v)

    def note(self, told):
        self.trace.append((self.last_alloc, told))
        if self.last_alloc is None or told > self.last_alloc:
            self.overrun = (self.last_alloc, told)

    def _write(self, outpp, outleft, data):
        told = outleft._obj.value
        room = min(told, self.last_alloc or 0)
        data = data[:room]                         # the fake never writes outside what exists
        if data:
            addr = ctypes.cast(outpp[0], ctypes.c_void_p).value
            ctypes.memmove(addr, data, len(data))
            outpp[0] = ctypes.cast(addr + len(data), ctypes.POINTER(ctypes.c_char))
        outleft._obj.value = told - len(data)

    def _finish(self, rc):
        if rc == 'ok':
            return 0
        ctypes.set_errno(ERRNO.get(rc) or int(rc))
        return M1

    def fake(self, cd, inpp, inleft, outpp, outleft):
        if inpp is None and outpp is None:
            self.k += 1
            if self.k >= len(self.rounds):
                raise OutOfScript()
            reset = self.rounds[self.k][1]
            if reset is not None:
                ctypes.set_errno(reset)
                return M1
            return 0
        told, _reset, main, flush = self.rounds[self.k]
        if inpp is not None:
            self.note(outleft._obj.value)
            rc, consumed, written = main
            inleft._obj.value = max(self.in_bytes - consumed, 0)
        else:
            rc, consumed, written = flush
        self._write(outpp, outleft, written)
        return self._finish(rc)

def canon_outcome(fn, show):
    try:
        with common.deadline(30):
            r = fn()
    except Runaway:
        return 'runaway'
    except common.Hang:
        return 'hang'
    except UnicodeError as exc:
        if isinstance(exc, (UnicodeDecodeError, UnicodeEncodeError)):
            return f'uerr {exc.start} {exc.end}'
        return crash(exc)
    except OSError as exc:
        return f'oserr {exc.errno}'
    except AssertionError:
        return 'assert'
    except OutOfScript:
        return 'fuel'
    except ValueError as exc:
        return 'valerr'         # ctypes refuses to turn a wchar_t above U+10FFFF into a str
    except Exception as exc:
        return crash(exc)
    return 'ok ' + show(r)

def show_trace(trace):
    return 'trace=' + ','.join(f'{a}:{t}' for a, t in trace)

def script_text(rounds):
    def call(c):
        rc, consumed, written = c
        return f'{rc}:{consumed}:{hexbytes(written)}'
    return ';'.join(f'{told}={"~" if reset is None else reset}/{call(main)}/{call(flush)}' for told, reset, main, flush in rounds)

def impl_decloop(data, rounds):
    I = mods()[1]
    with IconvSession(rounds, len(data)) as s:
        out = canon_outcome(lambda: I.decode(bytes(data), encoding='X-SCRIPTED'), hexchars)
    return out + ' ' + show_trace(s.trace), s

def impl_encloop(text, rounds):
    I = mods()[1]
    with IconvSession(rounds, 4 * len(text)) as s:
        out = canon_outcome(lambda: I.encode(text, encoding='X-SCRIPTED'), hexbytes)
    return out + ' ' + show_trace(s.trace), s

def contract_rounds(n_units, result, decode):
    """the rounds a contract-abiding iconv produces for told = n, 2n, 4n, … given what a conversion with unlimited room does
    (`result` of RefIconv.convert): E2BIG while the bytes produced before the stop do not fit, then the stop itself"""
    rounds = []
    told = n_units
    main, flush = result['main'], result['flush']
    for _ in range(40):
        if len(main) > told:
            rounds.append((told, None, ('e2big', 0, b''), ('ok', 0, b'')))
        elif result['rc'] == 'ok' and len(main) + len(flush) > told:
            rounds.append((told, None, ('ok', result['consumed'], main), ('e2big', 0, b'')))
        else:
            rc = result['rc']
            if rc == 'ok':
                rounds.append((told, None, ('ok', result['consumed'], main), ('ok', 0, flush)))
            elif rc in ('eilseq', 'einval'):
                rounds.append((told, None, (rc, result['consumed'], main), ('ok', 0, b'')))
            else:
                rounds.append((told, None, (rc.split()[-1], result['consumed'], main), ('ok', 0, b'')))
            return rounds
        told *= 2
    return rounds

def impl_real_decode(enc, data):
    I = mods()[1]
    with IconvSession() as s:
        out = canon_outcome(lambda: I.decode(bytes(data), encoding=enc), hexchars)
    return out + ' ' + show_trace(s.trace), s

def impl_real_encode(enc, text):
    I = mods()[1]
    with IconvSession() as s:
        out = canon_outcome(lambda: I.encode(text, encoding=enc), hexbytes)
    return out + ' ' + show_trace(s.trace), s

# ------------------------------------------------------------------ unrepresentable characters

class _ScriptedCodec:
    """a codec whose `encode` follows an oracle {text: 'o'|'e'|'i'|'c'} (anything unlisted: 'c')"""
    table = {}
    @classmethod
    def encode(cls, text, errors='strict'):
        o = cls.table.get(text, 'c')
        if o == 'o':
            return b'x' * len(text), len(text)
        if o == 'e':
            raise UnicodeEncodeError('x-verif-scripted', text, 0, max(len(text), 1), 'character maps to <undefined>')
        if o == 'i':
            raise UnicodeEncodeError('x-verif-scripted', text, 0, max(len(text), 1), 'iconv: conversion failed')
        if o == 'u':
            raise UnicodeError('label empty or too long')
        raise ValueError('scripted crash')
    @classmethod
    def decode(cls, data, errors='strict'):
        return bytes(data).decode('latin-1'), len(data)

def _scripted_search(name):
    if name in ('x-verif-scripted', 'x_verif_scripted'):
        return codecs.CodecInfo(encode=_ScriptedCodec.encode, decode=_ScriptedCodec.decode, name='x-verif-scripted')

_registered = False
def scripted_codec(table):
    global _registered
    if not _registered:
        codecs.register(_scripted_search)
        _registered = True
    _ScriptedCodec.table = table
    return 'x-verif-scripted'

def oracle_table(chars, joined, per):
    """the table both sides use: a character's own outcome (first occurrence) wins over the joined text's"""
    t = {''.join(chars): joined}
    first = {}
    for c, o in zip(chars, per):
        first.setdefault(c, o)
    t.update(first)
    return t

def make_language(code='xx'):
    L = mods()[2]
    lang = L.Language.__new__(L.Language)
    lang.language_code = code
    lang.territory_code = None
    lang.encoding = None
    lang.modifier = None
    return lang

def impl_unrep(chars, joined, per):
    """`Language.get_unrepresentable_characters` on a given character list with a scripted codec"""
    L = mods()[2]
    enc = scripted_codec(oracle_table(chars, joined, per))
    saved = L._get_characters
    L._get_characters = lambda code, modifier=None, *, strict=True: list(chars)
    try:
        try:
            with common.deadline(20):
                r = make_language().get_unrepresentable_characters(enc)
        except Exception as exc:
            return 'crash'
    finally:
        L._get_characters = saved
    if r is None:
        return 'CRASH:None'
    return 'ok ' + (','.join(hexchars(c) for c in r) if r else '-')

def impl_chars(strict, language, modifier):
    L = mods()[2]
    try:
        r = L._get_characters(language, modifier, strict=bool(strict))
    except Exception as exc:
        return crash(exc)
    if r is None:
        return 'CRASH:None'
    return ','.join(hexchars(c) for c in r) if r else '-'

def language_sections():
    """[(language, modifier or None, raw value)] for every `characters[@modifier]` option, read from the loaded tables"""
    L = mods()[2]
    out = []
    try:
        for lang, sect in L._primary_languages.items():
            for key in sect.keys():
                if key == 'characters' or key.startswith('characters@'):
                    out.append((lang, key.split('@', 1)[1] if '@' in key else None, sect.get(key)))
    except Exception:
        pass
    return out

def enc_outcome(text, enc):
    """reference: does `text` encode in `enc` (asked of Python directly)"""
    try:
        timed(enc, lambda: text.encode(enc))
    except UnicodeEncodeError as exc:
        return 'i' if str(exc.reason).startswith('iconv:') else 'e'
    except UnicodeError:
        return 'e'              # cannot be encoded, said without a position (idna)
    except Exception:
        return 'c'
    return 'o'

# ------------------------------------------------------------------ the charset fragment of check_headers

TAGS_OF_INTEREST = ('boilerplate-in-content-type', 'unknown-encoding', 'non-ascii-compatible-encoding', 'non-portable-encoding',
                    'unrepresentable-characters')

def impl_check(name, is_template, language):
    """run the real `check_mime` on a header with `Content-Type: text/plain; charset=<name>`; the five tags and ctx.encoding"""
    import checker_harness as H
    try:
        chk, calls = H.make_checker()
        ctx = types.SimpleNamespace()
        ctx.metadata = collections.defaultdict(list)
        ctx.metadata['MIME-Version'] = ['1.0']
        ctx.metadata['Content-Transfer-Encoding'] = ['8bit']
        ctx.metadata['Content-Type'] = ['text/plain; charset=' + name]
        ctx.is_template = bool(is_template)
        ctx.language = language
        ctx.encoding = None
        timed(name, lambda: chk.check_mime(ctx), 30)
    except Exception as exc:
        return 'crash', None
    out = []
    for tag, extra in calls:
        if tag not in TAGS_OF_INTEREST:
            out.append('OTHER:' + tag)
            continue
        if tag == 'boilerplate-in-content-type':
            out.append(tag)
        elif tag == 'unrepresentable-characters':
            out.append(f'{tag}({hexchars(str(extra[0]))},{",".join(hexchars(str(c)) for c in extra[1:]) or "-"})')
        else:
            out.append(f'{tag}(' + ','.join('=>' if str(x) == '=>' and i == 1 else hexchars(str(x)) for i, x in enumerate(extra)) + ')')
    enc = getattr(ctx, 'encoding', None)
    return 'ok ' + (';'.join(out) or '-') + ' enc=' + ('~' if enc is None else hexchars(enc)), calls

def parse_lang(s):
    L = mods()[2]
    try:
        return L.parse_language(s)
    except Exception:
        return None

def lenient_encode(text, enc):
    """what of `text` Python's own codecs can encode, character by character (sample material for the iconv binding)"""
    out = b''
    for c in text:
        try:
            out += timed(enc, lambda: c.encode(enc), 10)
        except Exception:
            pass
    return out

# ------------------------------------------------------------------ loading a file with a declared charset

LOADER_CONTENTS = [b'', b'abc', b'A' * 300, b'a.b', b'.xn--a', b'x.xn--a b', b'a.xn--bcher-kva.x', b'.xn--a-', b'x.xn--' + b'z' * 70,
                   b'\\x', b'\\N{', b'\\u12', b'\\', b'abc-def', b'-', b'+', b'+-', b'~{', b'\x1b$', b'\x1b$)C', b'\x0eabc',
                   bytes(range(128)), b'\x80', b'\xff' * 5, b'a\xe9b', b'\x00' * 3, b'begin 666 x\n', b'=\n']

def raw_decode(data, name):
    """what `data.decode(name)` does, asked directly: wire form of RawDecode"""
    try:
        with common.deadline(20):
            r = data.decode(name)
    except UnicodeDecodeError as exc:
        return f'D{exc.start:x}.{exc.end:x}'
    except UnicodeError:
        return 'U'
    except Exception:
        return 'O'
    return 'T' + hexchars(r) if isinstance(r, str) else 'O'

def impl_loader(data, name):
    E = mods()[0]
    try:
        with common.deadline(20):
            r = E.decode(data, name)
    except UnicodeDecodeError as exc:
        return f'ude {exc.start} {exc.end}'
    except AttributeError as exc:
        # the tree has no encodings.decode: the loaders call bytes.decode directly
        try:
            r = data.decode(name)
        except UnicodeDecodeError as exc2:
            return f'ude {exc2.start} {exc2.end}'
        except Exception:
            return 'crash'
    except Exception:
        return 'crash'
    return 'ok ' + hexchars(r) if isinstance(r, str) else 'crash'

def po_file(charset, body):
    return (b'msgid ""\nmsgstr ""\n"Project-Id-Version: x 1\\n"\n"Language: de\\n"\n"MIME-Version: 1.0\\n"\n'
            b'"Content-Type: text/plain; charset=' + charset.encode('ascii', 'replace') + b'\\n"\n"Content-Transfer-Encoding: 8bit\\n"\n\n'
            b'msgid "a"\nmsgstr "' + body + b'"\n')

def mo_file(charset, body):
    """a minimal little-endian MO file: the header entry declaring the charset, and one message"""
    import struct
    entries = [(b'', b'Content-Type: text/plain; charset=' + charset.encode('ascii', 'replace') + b'\n'), (b'a', body)]
    n = len(entries)
    data_off = 28 + 16 * n
    blob, otab, ttab = b'', [], []
    for k, v in entries:
        otab.append((len(k), data_off + len(blob))); blob += k + b'\0'
    for k, v in entries:
        ttab.append((len(v), data_off + len(blob))); blob += v + b'\0'
    out = struct.pack('<7I', 0x950412de, 0, n, 28, 28 + 8 * n, 0, 0)
    for l, o in otab + ttab:
        out += struct.pack('<2I', l, o)
    return out + blob

def falsify_loader(chk, names):
    """every codec the tool classifies ASCII-compatible must load a file: text, or `broken-encoding`, never a crash"""
    import tempfile, shutil
    import checker_harness as H
    E = mods()[0]
    cex = Cex()
    stats = collections.Counter()
    compat = {}
    for n in names:
        if impl_ascii(1, n) == '1':
            compat.setdefault(lookup_name(n) or n, n)
    transforming = set()
    for codec, n in sorted(compat.items()):
        for data in LOADER_CONTENTS + [d for c, d in CORPUS_BYTES if c == 'LOADER']:
            out = impl_loader(data, n)
            stats[out.split(' ')[0]] += 1
            if out == 'crash':
                cex.append({'kind': 'loader-crash', 'key': f'loader:{codec}', 'charset': n, 'bytes': data.hex(), 'raw': raw_decode(data, n),
                            'replay': f'bytes.fromhex({data.hex()!r}) loaded with charset={n} (lib.polib4us.Codecs.open / lib.moparser)'})
            elif out.startswith('ok') and data.isascii() and out != 'ok ' + hexchars(data.decode('ascii')):
                transforming.add(codec)
    # end to end: the real Checker.check() on files on disk
    d = tempfile.mkdtemp(prefix='i18n-verif-c20.')
    try:
        for codec, n in sorted(compat.items()):
            bodies = [b'x.xn--a', b'\\056\\170\\156\\055\\055\\141'] if codec in ('idna', 'punycode') or chk.rng.random() < 0.15 else []
            files = [('t.po', po_file(n, body)) for body in bodies] + [('t.mo', mo_file(n, body)) for body in bodies[:1]]
            for fname, content in files:
                body = content[-40:]
                path = os.path.join(d, fname)
                with open(path, 'wb') as f:
                    f.write(content)
                try:
                    c, calls = H.make_checker(path)
                    c.check()
                    stats['e2e:ok'] += 1
                except Exception as exc:
                    stats['e2e:crash'] += 1
                    cex.append({'kind': 'check-crash-on-load', 'key': f'loader-e2e:{codec}', 'charset': n, 'body': body.hex(),
                                'observed': f'{type(exc).__name__}: {exc}', 'file': fname, 'replay': 'i18nspector on a PO/MO file with this charset and msgstr body'})
    finally:
        shutil.rmtree(d, ignore_errors=True)
    chk.coverage.setdefault('falsifier', {})['loader'] = dict(stats)
    chk.coverage['ascii_compatible_by_the_probe_but_transforming_ascii_text'] = sorted(transforming)
    return cex

# ------------------------------------------------------------------ correspondence streams

CORPUS_BYTES = []

REAL_LOOP_ENCODINGS = ['EUC-TW', 'KOI8-T', 'KOI8-RU', 'VISCII', 'GEORGIAN-PS', 'UTF-8', 'EUC-JP', 'SHIFT_JIS', 'GB18030', 'BIG5',
                       'ISO-2022-JP', 'ISO-2022-KR', 'UTF-16', 'UTF-7', 'ISO-8859-1', 'CP1252']

def independent_characters(raw):
    """the non-optional characters of a `characters` value, as data/languages documents them"""
    return [t for t in raw.split() if not (t.startswith('(') and t.endswith(')'))]

def reference_characters(lang_str):
    """(characters or None) for a language string 'll', 'll_CC', 'll@mod', read from the loaded tables with the documented
    fall-back ll_CC → ll"""
    L = mods()[2]
    base, _, mod = lang_str.partition('@')
    ll, _, cc = base.partition('_')
    key = 'characters' + ('@' + mod if mod else '')
    for code in ([base] if cc else []) + [ll]:
        sect = L._primary_languages.get(code)
        if sect is None:
            continue
        raw = sect.get(key)
        if raw is not None:
            return independent_characters(raw)
    return None

def check_line(name, is_template, lang_str, proposal_names):
    """protocol line of the `check` op: everything the model needs is measured here, directly"""
    d = dec_outcome(name)[0]
    codec = lookup_name(name)
    if lang_str is None:
        cs, chars = '~', None
    else:
        chars = reference_characters(lang_str)
        cs = '^' if chars is None else (','.join(hexchars(c) for c in chars) if chars else '-')
    orc = []
    if chars is not None:
        for e in proposal_names:
            j = enc_outcome(''.join(chars), e)
            per = ''.join(enc_outcome(c, e) for c in chars)
            orc.append(f'{hexchars(e)}={j}:{per}')
    return f'charset check {hexchars(name)} {int(is_template)} {d} {"~" if codec is None else hexchars(codec)} {cs} {";".join(orc) or "~"}'

_CNS = {}
def euctw_cns_oracle(b):
    """the CNS 11643 entries a decoder of `b` could touch, asked of iconv one unit at a time: `p.r.c=cp;…`"""
    R = ref()
    ent = {}
    hi = lambda x: 0xA1 <= x <= 0xFE
    for i in range(len(b)):
        cands = []
        if i + 1 < len(b) and hi(b[i]) and hi(b[i + 1]):
            cands.append(((1, b[i], b[i + 1]), bytes(b[i:i + 2])))
        if b[i] == 0x8E and i + 3 < len(b) and hi(b[i + 1]):
            cands.append(((b[i + 1] - 0xA0, b[i + 2], b[i + 3]), bytes(b[i:i + 4])))
        for key, unit in cands:
            if key not in _CNS:
                r = R.decode('EUC-TW', unit)
                _CNS[key] = ord(r[1]) if r[0] == 'ok' and len(r[1]) == 1 else None
            if _CNS[key] is not None:
                ent[key] = _CNS[key]
    return ';'.join(f'{p:x}.{r:x}.{c:x}={cp:x}' for (p, r, c), cp in sorted(ent.items())) or '~'

_INV = {}
def euctw_inv_oracle(t):
    R = ref()
    ent = {}
    for ch in set(t):
        if ord(ch) <= 0x7F:
            continue
        if ch not in _INV:
            r = R.encode('EUC-TW', ch)
            v = None
            if r[0] == 'ok' and len(r[1]) == 2:
                v = (1, r[1][0], r[1][1])
            elif r[0] == 'ok' and len(r[1]) == 4 and r[1][0] == 0x8E:
                v = (r[1][1] - 0xA0, r[1][2], r[1][3])
            _INV[ch] = v
        if _INV[ch] is not None:
            ent[ord(ch)] = _INV[ch]
    return ';'.join(f'{cp:x}={p:x}.{r:x}.{c:x}' for cp, (p, r, c) in sorted(ent.items())) or '~'

def build_streams(chk, names, sizes):
    """{family: (lines, impl outputs)}; `names` = the name pool"""
    rng = chk.rng
    E, I, L = mods()
    fam = collections.OrderedDict()
    # ---- names: classification and codec search
    lines, outs = [], []
    for n in names:
        h = hexchars(n)
        for py in (1, 0):
            lines.append(f'charset portable {py} {h}'); outs.append(impl_portable(py, n))
        codec = lookup_name(n)
        lines.append(f'charset propose {h} {"~" if codec is None else hexchars(codec)}'); outs.append(impl_propose(n))
        d = dec_outcome(n)[0]
        for mo in (1, 0):
            lines.append(f'charset ascii {mo} {d}'); outs.append(impl_ascii(mo, n))
        lines.append(f'charset search {h}'); outs.append(impl_search(n))
        m = n.lower().replace('-', '_')
        if m != n:
            lines.append(f'charset search {hexchars(m)}'); outs.append(impl_search(m))
    fam['names'] = (lines, outs)
    # the twin: the same lines through the functions REGENERATED from lib/encodings.py (Generated.EncodingsFn; ops g<op>)
    fam['names-generated'] = ([l.replace('charset ', 'charset g', 1) for l in lines], list(outs))
    # ---- the registry: the model of `codecs.lookup(name).name` (C normalisation, alias table, encodings.<module>, the tool's search
    # function) against the running interpreter, on the name pool and on punctuation / case / dot variants of it
    lines, outs = [], []
    seen = set()
    def registry_line(n):
        if n in seen or '\0' in n:
            return
        try:
            n.encode('utf-8')
        except UnicodeEncodeError:
            return
        seen.add(n)
        c = lookup_name(n)
        lines.append(f'charset lookup {hexchars(n)}'); outs.append('none' if c is None else 'some ' + hexchars(c))
    for n in names:
        registry_line(n)
        for v in (n.upper(), n.lower().replace('-', '_'), n.replace('_', ' '), ' ' + n + ' ', n.replace('-', '--'), n.replace('_', '.'), n.replace('-', '.'),
                  '-' + n, n + '!', n.replace('8', '-8', 1), 'é' + n, n[:-1] + '.' + n[-1:] if n else n):
            if rng.random() < 0.25:
                registry_line(v)
    for n in ['', '.', '..', '_', 'aliases', 'encodings.utf_8', 'utf.8', 'utf_8.', '.utf_8', 'utf_8_', 'UTF 8', 'utf\t8', 'ISO_8859-1:1987', 'iso.8859.1', '8859_1', '8859-1',
              '8859', 'mbcs', 'oem', 'koi8.t', 'KOI8 T', 'euc tw', 'euc.tw', 'georgian ps', 'viscii.', 'x!!y', 'latin-1', 'l1', 'L 1', 'u8', 'U.8', 'cp-1252', 'cp_1252', 'cp.1252']:
        registry_line(n)
    fam['registry'] = (lines, outs)
    # ---- charmap codecs
    lines, outs = [], []
    try:
        files = sorted(os.listdir(os.path.join(common.REPO, 'data', 'charmaps')))
    except OSError:
        files = []
    for f in files:
        try:
            table = open(os.path.join(common.REPO, 'data', 'charmaps', f), 'rb').read().decode('UTF-8')
        except Exception:
            table = ''
        for b in [x for c, x in CORPUS_BYTES if c == f] + G.byte_strings_single(rng, sizes['charmap_bytes']):
            lines.append(f'charset cmdecode {hexchars(f)} {hexbytes(b)}'); outs.append(impl_cmdecode(f, b))
        for t in G.texts(rng, table, sizes['charmap_texts']):
            lines.append(f'charset cmencode {hexchars(f)} {hexchars(t)}'); outs.append(impl_cmencode(f, t))
    fam['charmap'] = (lines, outs)
    # ---- the binding under a scripted iconv
    lines, outs = [], []
    glines = []        # the twin stream: the same inputs through decode / encode as REGENERATED from lib/iconv.py (Generated.IconvDl)
    for n, rounds in G.iconv_scripts(rng, sizes['scripts'], decode=True):
        data = bytes(rng.randrange(256) if rng.random() < 0.6 else rng.randrange(0x20, 0x7f) for _ in range(n))
        lines.append(f'charset decloop {hexbytes(data)} 60 {script_text(rounds)}'); outs.append(impl_decloop(data, rounds)[0])
        glines.append(f'charset gdecloop {hexbytes(data)} 60 {script_text(rounds)}')
    for n, rounds in G.iconv_scripts(rng, sizes['scripts'], decode=False):
        text = ''.join(rng.choice('ab€ж中\U0001f600') for _ in range(n))
        lines.append(f'charset encloop {n} 60 {script_text(rounds)}'); outs.append(impl_encloop(text, rounds)[0])
        glines.append(f'charset gencloop {hexchars(text)} 60 {script_text(rounds)}')
    fam['loop-scripted'] = (lines, outs)
    fam['loop-scripted-generated'] = (glines, list(outs))
    # ---- the binding under the real iconv; the model runs the rounds a contract-abiding iconv would produce
    lines, outs = [], []
    glines = []
    R = ref()
    if R.ok:
        for enc in REAL_LOOP_ENCODINGS:
            if not R.available('WCHAR_T', enc):
                continue
            pool = G.byte_strings_euctw(rng, sizes['real_loop'], plane_sample=sizes['real_loop']) if enc == 'EUC-TW' \
                else G.byte_strings_single(rng, sizes['real_loop'])
            if enc not in G.EXTRA_CODECS:
                pool = rng.sample(pool, min(len(pool), sizes['real_loop']))
                pool += [lenient_encode(t, enc) for t in ('日本語のテキスト', 'abc' * 50, '한국어', '€uro', 'żółć', '中文' * 40)]
            pool = [x for c, x in CORPUS_BYTES if c == 'LOOP:' + enc] + pool
            for b in pool:
                if not b:
                    continue
                out, sess = impl_real_decode(enc, b)
                rounds = [tuple(r) for r in sess.recorded if r[0] is not None or r[1] is not None]
                rounds = [(r[0] if r[0] is not None else 0,) + r[1:] for r in rounds]
                lines.append(f'charset decloop {hexbytes(b)} 60 {script_text(rounds)}'); outs.append(out)
                glines.append(f'charset gdecloop {hexbytes(b)} 60 {script_text(rounds)}')
            for t in rng.sample(G.texts(rng, 'abcжяაბ中文한ạ€é', sizes['real_loop']), min(sizes['real_loop'], 300)):
                if not t:
                    continue
                try:
                    t.encode('utf-32-le')
                except UnicodeEncodeError:
                    continue          # `bytes(input, 'UTF-32LE')` fails before the loop
                out, sess = impl_real_encode(enc, t)
                rounds = [tuple(r) for r in sess.recorded if r[0] is not None or r[1] is not None]
                rounds = [(r[0] if r[0] is not None else 0,) + r[1:] for r in rounds]
                lines.append(f'charset encloop {len(t)} 60 {script_text(rounds)}'); outs.append(out)
                glines.append(f'charset gencloop {hexchars(t)} 60 {script_text(rounds)}')
    fam['loop-real'] = (lines, outs)
    fam['loop-real-generated'] = (glines, list(outs))
    # ---- encodings.decode, the decode of every loader
    lines, outs = [], []
    seen_codecs = {}
    for n in names:
        c = lookup_name(n)
        if c is not None and c not in seen_codecs and usable_text_codec(n):
            seen_codecs[c] = n
    for c, n in sorted(seen_codecs.items()):
        for data in LOADER_CONTENTS + [d for cc, d in CORPUS_BYTES if cc == 'LOADER']:
            lines.append(f'charset loader {len(data)} {raw_decode(data, n)}'); outs.append(impl_loader(data, n))
    fam['loader'] = (lines, outs)
    fam['loader-generated'] = ([l.replace('charset ', 'charset g', 1) for l in lines], list(outs))
    # ---- EUC-TW: the structural model against the tool's codec; the CNS tables are asked of iconv unit by unit
    lines, outs = [], []
    if R.ok and R.available('UTF-32LE', 'EUC-TW'):
        seen_text = set()
        for b in [x for c, x in CORPUS_BYTES if c == 'EUC-TW'] + G.byte_strings_euctw(rng, sizes['euctw'], plane_sample=sizes['euctw']):
            if not b:
                continue
            lines.append(f'charset euctw-dec {hexbytes(b)} {euctw_cns_oracle(b)}')
            out, sess = impl_real_decode('EUC-TW', b)
            head = out.split(' trace=')[0]
            if head.startswith('uerr'):
                kind = sess.recorded[-1][2][0] if sess.recorded else '?'
                head = f'err {head.split(" ")[1]} {kind}'
            outs.append(head)
            if head.startswith('ok ') and len(seen_text) < sizes['euctw']:
                seen_text.add(b.decode('EUC-TW'))
        for t in sorted(seen_text) + G.texts(rng, sorted(set(''.join(seen_text))), sizes['euctw'] // 4):
            if not t:
                continue
            try:
                t.encode('utf-32-le')
            except UnicodeEncodeError:
                continue
            lines.append(f'charset euctw-enc {hexchars(t)} {euctw_inv_oracle(t)}')
            out = impl_real_encode('EUC-TW', t)[0].split(' trace=')[0]
            outs.append('err ' + out.split(' ')[1] if out.startswith('uerr') else out)
    fam['euctw'] = (lines, outs)
    ref_calls = []
    # ---- EUC-TW once more, now against the model over the GENERATED tables (Generated.CharsetCns*: every answer of the system
    # iconv, dumped by tools/translate/charsetcns2lean.py): no oracle travels with the line.  `rt` = what theorem euctw_roundtrip
    # predicts for encode(decode(b)) == b, compared with what the tool's codec does.
    lines, outs = [], []
    if R.ok and R.available('UTF-32LE', 'EUC-TW'):
        rows = range(0xA1, 0xFF)
        pool = [bytes([a, b]) for a in rows for b in (rows if sizes.get('euctw_all') else rng.sample(list(rows), 12))]
        pool += [bytes.fromhex(h) for h in ('8ea3a1b8', 'a4bf', '8ea1a4bf', '8ea3a1b7', '8ea3a1b9', '8ea2a4a1', '8ea1a4a1', '8eafa1a1', '8eb0a1a1', '8eb1a1a1',
                                             '8ea0a1a1', '8ea8a1a1', '8ea1a1', '8ea1', '8e', '8ea3a1b841', '418ea3a1b8', 'a4a18ea1a4a1a4a1')]
        for p in range(1, 18):
            for _ in range(sizes['euctw'] // 12):
                pool.append(bytes([0x8E, 0xA0 + p, rng.randrange(0xA1, 0xFF), rng.randrange(0xA1, 0xFF)]))
        pool += [x for c, x in CORPUS_BYTES if c == 'EUC-TW'] + G.byte_strings_euctw(rng, sizes['euctw'], plane_sample=0)
        seen_text = set()
        for b in pool:
            if not b:
                continue
            lines.append(f'charset euctw-rdec {hexbytes(b)}')
            out, sess = impl_real_decode('EUC-TW', b)
            ref_calls.append(('refdec euctw', hexbytes(b), sess))
            head = out.split(' trace=')[0]
            if head.startswith('uerr'):
                kind = sess.recorded[-1][2][0] if sess.recorded else '?'
                head = f'err {head.split(" ")[1]} {kind}'
            elif head.startswith('ok '):
                try:
                    t = timed('EUC-TW', lambda: bytes(b).decode('EUC-TW'))
                    back = timed('EUC-TW', lambda: t.encode('EUC-TW'))
                    head += f' rt={int(back == b)}'
                    if len(seen_text) < sizes['euctw']:
                        seen_text.add(t)
                except Exception as exc:
                    head += ' rt=' + crash(exc)
            outs.append(head)
        tags = ['\U000e0000', '\U000e0041', '\U000e007f', 'a\U000e0041b', '\U000e0041\uff10\U000e0001', '\U000e0080', '\U000dffff', 'a\U000e0080']
        for t in tags + sorted(seen_text) + G.texts(rng, sorted(set(''.join(seen_text))), sizes['euctw'] // 4):
            if not t:
                continue
            try:
                t.encode('utf-32-le')
            except UnicodeEncodeError:
                continue
            lines.append(f'charset euctw-renc {hexchars(t)}')
            out, sess = impl_real_encode('EUC-TW', t)
            ref_calls.append(('refenc euctw', hexchars(t), sess))
            out = out.split(' trace=')[0]
            outs.append('err ' + out.split(' ')[1] if out.startswith('uerr') else out)
    fam['euctw-real'] = (lines, outs)
    # ---- the reference iconv (Spec/CharsetIconv.lean: unit by unit, room checked first, offending unit unconsumed) against
    # the real glibc, CALL BY CALL: every conversion call the tool's loop made above (told = n, 2n, 4n, …) with its return
    # code, the input it consumed and the bytes it wrote; plus KOI8-T through the tool's own binding
    if R.ok and R.available('UTF-32LE', 'KOI8-T'):
        kb = [bytes([x]) for x in range(256)] + [bytes([0x41, x, 0x42]) for x in range(0x80, 0x100, 5)] + G.byte_strings_single(rng, sizes['euctw'] // 6)
        ktexts = set()
        for b in kb:
            if not b:
                continue
            out, sess = impl_real_decode('KOI8-T', b)
            ref_calls.append(('refdec koi8t', hexbytes(b), sess))
            if out.startswith('ok '):
                try:
                    ktexts.add(bytes(b).decode('koi8_t'))
                except Exception:
                    pass
        for t in ['\U000e0041', 'a\U000e0041b', '\u0451\U000e0001', '\ufffe', 'a\u20acb'] + G.texts(rng, sorted(set(''.join(ktexts))), sizes['euctw'] // 6):
            if not t:
                continue
            try:
                t.encode('utf-32-le')
            except UnicodeEncodeError:
                continue
            out, sess = impl_real_encode('KOI8-T', t)
            ref_calls.append(('refenc koi8t', hexchars(t), sess))
    lines, outs = [], []
    for op, arg, sess in ref_calls:
        for r in (sess.recorded or []):
            told, reset, main, flush = r
            if told is None or reset is not None:
                continue
            lines.append(f'charset {op} {arg} {told}')
            o = f'{main[0]} {main[1]} {hexbytes(main[2])}'
            if main[0] == 'ok' and tuple(flush) != ('ok', 0, b''):
                o += f' flush={flush[0]}:{hexbytes(flush[2])}'
            outs.append(o)
    fam['reficonv'] = (lines, outs)
    # ---- character lists
    lines, outs = [], []
    sects = language_sections()
    for lang, mod, raw in sects:
        for strict in (0, 1):
            lines.append(f'charset chars {strict} {hexchars(raw)}'); outs.append(impl_chars(strict, lang, mod))
    for chars, per in G.char_lists(rng, sizes['unrep']):
        first = {}
        for c, o in zip(chars, per):
            first.setdefault(c, o)
        per = ''.join(first[c] for c in chars)
        if len(set(chars)) == 1 and len(chars) == 1:
            joined = per[0]
        else:
            joined = 'o' if set(per) == {'o'} and rng.random() < 0.9 else rng.choice('eeeeuoic')
            if ''.join(chars) in first:
                joined = first[''.join(chars)]
        # 'u' = a plain UnicodeError (no position, no reason): for the model it is an encode error like 'e'
        lines.append(f'charset unrep {joined.replace("u", "e")} {per.replace("u", "e")} {",".join(hexchars(c) for c in chars)}')
        outs.append(impl_unrep(chars, joined, per))
    fam['characters'] = (lines, outs)
    # the twin of the `unrep` lines: Language.get_unrepresentable_characters as REGENERATED from lib/ling.py (Generated.LingFn; op gunrep)
    gl = [(l.replace('charset unrep ', 'charset gunrep ', 1), o) for l, o in zip(lines, outs) if l.startswith('charset unrep ')]
    fam['characters-generated'] = ([l for l, _ in gl], [o for _, o in gl])
    # ---- the charset fragment of check_headers
    lines, outs = [], []
    langs = sorted({l + ('@' + m if m else '') for l, m, _ in sects})
    some_langs = ['de', 'pl', 'ru', 'uk', 'ka', 'vi', 'tg', 'zh_TW', 'pt_BR', 'sr@latin', 'am', 'en_GB', 'xx', 'tlh', 'eo']
    check_names = rng.sample(names, min(len(names), sizes['check_names']))
    tool_names = list(G.EXTRA_CODECS) + ['CHARSET', 'UTF-8', 'utf8', 'ISO_8859-2', 'windows-1250', 'utf-16', 'idna', 'ascii', 'eggs']
    for n in tool_names + check_names:
        choices = [None, rng.choice(some_langs), rng.choice(langs) if langs else 'de']
        if n in tool_names:
            choices += ['ru', 'vi', 'ka', 'zh_TW', 'tg']
        for lang_str in choices:
            for tmpl in ((0, 1) if n == 'CHARSET' else (0,)):
                language = parse_lang(lang_str) if lang_str else None
                if lang_str and language is None:
                    continue
                prop = None
                try:
                    prop = E.propose_portable_encoding(n)
                except Exception:
                    pass
                lines.append(check_line(n, tmpl, lang_str, [n] + ([prop] if isinstance(prop, str) else [])))
                outs.append(impl_check(n, tmpl, language)[0])
    fam['check'] = (lines, outs)
    return fam

def run_streams(chk, fam, generated_ok=True):
    dis = {}
    for name, (lines, outs) in fam.items():
        if not lines:
            continue
        if name.endswith('-generated') and not generated_ok:
            continue          # the regenerated definitions did not build: the tie is already in chk.broken
        d, model = chk.stream('charset-' + name, lines, outs)
        dis[name] = [(lines[i], outs[i], model[i]) for i in d]
    return dis

# ------------------------------------------------------------------ the falsifier: the property itself on the real code

class Cex(list):
    """counterexamples, one per key (further hits of a key are only counted)"""
    def __init__(self):
        super().__init__()
        self.hits = collections.Counter()
    def append(self, c):
        self.hits[c['key']] += 1
        if self.hits[c['key']] == 1:
            super().append(c)

KEY_KOI8T = 'portable:KOI8-T:data-says-not-python-but-python-ships-koi8_t'
KEY_EUCTW = 'roundtrip:EUC-TW:glibc-decodes-two-byte-strings-to-the-same-text'

def ref_normalise(name):
    e = ''.join(chr(ord(c) + 32) if 'A' <= c <= 'Z' else c for c in name)
    return 'iso-' + e[4:] if e.startswith('iso_') else e

_GETTEXT = {n.lower(): n for n in G.GETTEXT_PORTABLE}

def decode_outcome(data, name):
    try:
        return ('ok', data.decode(name))
    except UnicodeDecodeError as exc:
        return ('ude', exc.start, exc.end)
    except Exception as exc:
        return ('exc', type(exc).__name__)

def probe_bytes(rng, n=160):
    out = [bytes([b]) for b in range(256)]
    for _ in range(n):
        k = rng.choice([2, 2, 3, 4, 6, 9, 17])
        mode = rng.randrange(3)
        out.append(bytes((rng.randrange(256) if mode == 0 else rng.randrange(128, 256) if mode == 1
                          else rng.choice([rng.randrange(32, 127), rng.randrange(0x81, 0xFF)])) for _ in range(k)))
    return out

def falsify_classification(chk, names, ships):
    """ascii-compatible / unknown / portable / proposal laws, for every name, against references of the harness's own"""
    E = mods()[0]
    cex = Cex()
    ident = G.ASCII_REPERTOIRE.decode('ascii')
    probes = probe_bytes(chk.rng)
    stats = collections.Counter()
    cache = {}
    for n in names:
        # -- ASCII-compatible iff decoding the ASCII repertoire yields the same characters
        a = impl_ascii(1, n)
        ref_a = '1' if dec_outcome(n)[1] == ident else '0'
        stats['ascii=' + a] += 1
        if a != ref_a:
            cex.append({'kind': 'ascii-compatible', 'key': 'ascii:' + n, 'name': n, 'observed': a, 'expected': ref_a,
                        'replay': f'lib.encodings.is_ascii_compatible_encoding({n!r})'})
        # -- unknown iff no usable text codec exists
        u = impl_ascii(0, n)
        ref_u = not usable_text_codec(n)
        stats['unknown=' + str(u == 'ELE')] += 1
        if (u == 'ELE') != ref_u or u.startswith('CRASH'):
            cex.append({'kind': 'unknown-encoding', 'key': 'unknown:' + n, 'name': n, 'observed': u, 'expected': 'ELE' if ref_u else 'a bool',
                        'replay': f'lib.encodings.is_ascii_compatible_encoding({n!r}, missing_ok=False)'})
        # -- portable iff gettext lists it and Python ships a codec for it
        p = impl_portable(1, n)
        listed = _GETTEXT.get(ref_normalise(n))
        ref_p = '1' if (listed is not None and ships.get(listed, False)) else '0'
        stats['portable=' + p] += 1
        if p != ref_p:
            key = KEY_KOI8T if listed == 'KOI8-T' and p == '0' else 'portable:' + n
            cex.append({'kind': 'portable', 'key': key, 'name': n, 'observed': p, 'expected': ref_p, 'gettext_lists': listed,
                        'python_ships': ships.get(listed), 'replay': f'lib.encodings.is_portable_encoding({n!r})'})
        p0 = impl_portable(0, n)
        if p0 != ('1' if listed is not None else '0'):
            cex.append({'kind': 'portable(python=False)', 'key': 'portable0:' + n, 'name': n, 'observed': p0, 'gettext_lists': listed,
                        'replay': f'lib.encodings.is_portable_encoding({n!r}, python=False)'})
        # -- a proposed replacement is portable and decodes every byte sequence exactly as the original name does
        q = impl_propose(n)
        if q.startswith('CRASH') or q == 'assert':
            cex.append({'kind': 'proposal-crash', 'key': 'propose-crash:' + n, 'name': n, 'observed': q,
                        'replay': f'lib.encodings.propose_portable_encoding({n!r})'})
        elif q != 'none':
            stats['proposal'] += 1
            try:
                prop = E.propose_portable_encoding(n)
            except Exception:
                continue
            if impl_portable(1, prop) != '1':
                cex.append({'kind': 'proposal-not-portable', 'key': 'propose-portable:' + n, 'name': n, 'proposal': prop,
                            'replay': f'lib.encodings.is_portable_encoding(lib.encodings.propose_portable_encoding({n!r}))'})
            for b in probes:
                kq = (prop, b)
                if kq not in cache:
                    cache[kq] = decode_outcome(b, prop)
                if decode_outcome(b, n) != cache[kq]:
                    cex.append({'kind': 'proposal-decodes-differently', 'key': 'propose-decode:' + n, 'name': n, 'proposal': prop,
                                'bytes': b.hex(), 'original': repr(decode_outcome(b, n)), 'replacement': repr(cache[kq]),
                                'replay': f'bytes.fromhex({b.hex()!r}).decode({n!r}) vs .decode({prop!r}) after install_extra_encodings()'})
                    break
        if len(cex) > 40:
            break
    chk.coverage.setdefault('falsifier', {})['classification'] = dict(stats)
    return cex

# ---- which bytes does the ASCII-compatibility test look at?  (mutant class "test set widened / narrowed")

def _deviant_search(name):
    """`verif_dev_XX`: a byte-wise codec that is ASCII except that byte 0xXX decodes to U+0100 (registered by the harness through
    the public `codecs.register`; latin-1 above 0x7F)"""
    if name.startswith('verif_dev_') and len(name) == 12:
        try:
            x = int(name[10:], 16)
        except ValueError:
            return None
        def decode(data, errors='strict', x=x):
            return ''.join('\u0100' if b == x else chr(b) for b in bytes(data)), len(data)
        def encode(text, errors='strict', x=x):
            return bytes(x if c == '\u0100' else ord(c) for c in text), len(text)
        return codecs.CodecInfo(encode=encode, decode=decode, name=name)

_dev_registered = False
def deviant_codec(x):
    global _dev_registered
    if not _dev_registered:
        codecs.register(_deviant_search)
        _dev_registered = True
    return f'verif_dev_{x:02x}'

def independent_verdict(name, data):
    """does `data` (ASCII bytes) decode to itself with codec `name` — asked of the codec directly"""
    try:
        with common.deadline(20):
            r = data.decode(name)
    except Exception:
        return False
    return isinstance(r, str) and r == data.decode('ascii')

def falsify_test_set(chk, names):
    """The tool's verdict for every codec name against TWO independent readings of "decoding the ASCII repertoire yields the same
    characters": over the documented repertoire (NUL EOT BEL BS HT LF VT FF CR ESC + printable), and over all 128 ASCII bytes;
    plus, for every single ASCII byte, a synthetic byte-wise codec that deviates at that byte only (a tested byte must make the
    verdict False, an untested one must not).  Reports which test set explains the tool's verdicts."""
    cex = Cex()
    doc = G.ASCII_REPERTOIRE
    full = bytes(range(128))
    stats = collections.Counter()
    obs = {}
    pool = list(dict.fromkeys(list(names) + [deviant_codec(x) for x in range(128)]))
    for n in pool:
        a = impl_ascii(1, n)
        if a not in '01':
            continue
        obs[n] = (a == '1', independent_verdict(n, doc), independent_verdict(n, full))
    wrong_doc = sorted(n for n, (a, d, f) in obs.items() if a != d)
    wrong_full = sorted(n for n, (a, d, f) in obs.items() if a != f)
    stats['names'] = len(obs)
    stats['tool != documented-set verdict'] = len(wrong_doc)
    stats['tool != all-128-bytes verdict'] = len(wrong_full)
    stats['names where the two readings differ'] = sum(1 for a, d, f in obs.values() if d != f)
    reading = 'the documented test set' if not wrong_doc else 'all 128 ASCII bytes' if not wrong_full else None
    explained = None
    if wrong_doc and reading != 'all 128 ASCII bytes':
        # which single change of the set explains every verdict?  (bounded: one byte dropped, one byte added, a contiguous tail/head dropped)
        cands = [('without', [x]) for x in sorted(set(doc))] + [('with', [x]) for x in range(128) if x not in doc]
        cands += [('without', list(range(x, 127))) for x in range(33, 127)] + [('without', list(range(32, x))) for x in range(33, 127)]
        for how, xs in cands:
            test = bytes(b for b in doc if b not in xs) if how == 'without' else bytes(sorted(set(doc) | set(xs)))
            if all(independent_verdict(n, test) == a for n, (a, d, f) in obs.items() if n in wrong_doc) and \
               all(independent_verdict(n, test) == a for n, (a, d, f) in list(obs.items())[::7]):
                explained = f'the documented set {how} ' + ' '.join(f'0x{x:02X}' for x in xs)
                break
    attr = None
    try:
        ib = mods()[0]._interesting_ascii_bytes
        if isinstance(ib, bytes) and ib != doc:
            attr = {'missing': [f'0x{x:02X}' for x in sorted(set(doc) - set(ib))], 'extra': [f'0x{x:02X}' for x in sorted(set(ib) - set(doc))]}
    except Exception:
        pass
    chk.coverage.setdefault('falsifier', {})['test-set'] = dict(stats, reading_implemented=reading or explained or 'no single test set explains the verdicts')
    for n in wrong_doc[:6]:
        a, d, f = obs[n]
        synthetic = n.startswith('verif_dev_')
        cex.append({'kind': 'ascii-test-set', 'key': 'ascii-set:' + n, 'name': n, 'observed': a, 'documented_set_verdict': d, 'all_128_bytes_verdict': f,
                    'reading_the_code_implements': reading or explained or 'neither', '_interesting_ascii_bytes': attr,
                    'synthetic_codec': synthetic,
                    'replay': (f'codecs.register(<byte-wise codec, ASCII except 0x{n[10:]} -> U+0100>); ' if synthetic else '')
                              + f'lib.encodings.is_ascii_compatible_encoding({n!r})'})
    return cex

def _guard(fn, name, seconds=20):
    """a call into a real codec that cannot stall the check: common.Hang (an Exception) after `seconds`"""
    def run(*a):
        return timed(name, lambda: fn(*a), seconds)
    return run

def codec_objects():
    """the extra codecs as reached through bytes.decode/str.encode, plus the tool's own KOI8-T object (shadowed by Python's koi8_t)"""
    E = mods()[0]
    objs = []
    for name in G.EXTRA_CODECS:
        objs.append((name, name, _guard(lambda b, name=name: b.decode(name), name), _guard(lambda s, name=name: s.encode(name), name)))
    try:
        ci = E._codec_search_function('koi8_t')
        if ci is not None:
            objs.append(('KOI8-T', "lib.encodings._codec_search_function('koi8_t')", _guard(lambda b, ci=ci: ci.decode(b)[0], 'koi8-t-own'), _guard(lambda s, ci=ci: ci.encode(s)[0], 'koi8-t-own')))
    except Exception:
        pass
    return objs

def falsify_codecs(chk, sizes):
    """total, round-trips, agrees with the system iconv — for the five extra codecs"""
    rng = chk.rng
    R = ref()
    cex = Cex()
    stats = collections.Counter()
    cli_budget = sizes.get('cli', 12)
    for name, label, dec, enc in codec_objects():
        if name == 'EUC-TW':
            inputs = G.byte_strings_euctw(rng, sizes['codec_bytes'], exhaustive2=sizes.get('exhaustive'),
                                          plane_sample=sizes['codec_bytes'] * (40 if sizes.get('exhaustive') else 1))
        else:
            inputs = G.byte_strings_single(rng, sizes['codec_bytes'])
        inputs = [x for c, x in CORPUS_BYTES if c == name] + inputs
        repertoire = set()
        for b in inputs:
            n = len(b)
            try:
                t = dec(b)
                stats[label + ':decoded'] += 1
            except UnicodeDecodeError as exc:
                stats[label + ':UnicodeDecodeError'] += 1
                t = None
                if not span_ok(exc, n):
                    cex.append({'kind': 'decode-error-span', 'key': f'span:{name}', 'codec': label, 'bytes': b.hex(),
                                'observed': f'start={exc.start} end={exc.end} len={n}', 'replay': f'bytes.fromhex({b.hex()!r}).decode({name!r})'})
            except Exception as exc:
                t = None
                cex.append({'kind': 'decode-crash', 'key': f'crash:{name}:{type(exc).__name__}', 'codec': label, 'bytes': b.hex(),
                            'observed': f'{type(exc).__name__}: {exc}', 'replay': f'bytes.fromhex({b.hex()!r}).decode({name!r})'})
                if isinstance(exc, common.Hang):
                    break               # one non-terminating input is the replay; do not wait for the others
            if t is not None and not isinstance(t, str):
                cex.append({'kind': 'decode-not-str', 'key': f'type:{name}', 'codec': label, 'bytes': b.hex(), 'observed': repr(t)[:80]})
                t = None
            r = R.decode(name, b)
            if r[0] != 'unavailable':
                stats[label + ':vs-iconv'] += 1
                if (r[0] == 'ok') != (t is not None) or (t is not None and r[1] != t):
                    cex.append({'kind': 'decode-differs-from-iconv', 'key': f'iconv:{name}', 'codec': label, 'bytes': b.hex(),
                                'observed': repr(t), 'iconv': repr(r), 'replay': f'bytes.fromhex({b.hex()!r}).decode({name!r}) vs iconv -f {name} -t UTF-8'})
            if t is not None:
                repertoire.update(t)
                hung = False
                try:
                    back = enc(t)
                except Exception as exc:
                    back = f'{type(exc).__name__}: {exc}'
                    hung = isinstance(exc, common.Hang)
                if back != b:
                    # the recorded class: iconv itself decodes `back` and `b` to the same text (the charset as glibc implements it
                    # is not injective), so no encoder could return both
                    same = name == 'EUC-TW' and isinstance(back, bytes) and R.decode(name, back) == ('ok', t) and r == ('ok', t)
                    key = KEY_EUCTW if same else f'roundtrip:{name}'
                    cex.append({'kind': 'roundtrip', 'key': key, 'codec': label, 'bytes': b.hex(), 'decoded': t,
                                'encoded_back': back.hex() if isinstance(back, bytes) else back,
                                'replay': f'bytes.fromhex({b.hex()!r}).decode({name!r}).encode({name!r})'})
                if hung:
                    cex[-1]['kind'] = 'encode-does-not-terminate'
                    cex[-1]['key'] = f'hang:{name}'
                    break
                if cli_budget > 0 and n and rng.random() < 0.02:
                    cli_budget -= 1
                    out, failed = iconv_cli(name, 'UTF-8', b)
                    stats['iconv(1) runs'] += 1
                    if failed or out.decode('utf-8', 'replace') != t:
                        cex.append({'kind': 'decode-differs-from-iconv(1)', 'key': f'iconv1:{name}', 'codec': label, 'bytes': b.hex(),
                                    'observed': t, 'iconv': out.hex()})
            if len(cex) > 30:
                break
        for s in G.texts(rng, sorted(repertoire), sizes['codec_texts']):
            try:
                b = enc(s)
                stats[label + ':encoded'] += 1
            except UnicodeEncodeError as exc:
                stats[label + ':UnicodeEncodeError'] += 1
                b = None
                if not span_ok(exc, len(s)):
                    cex.append({'kind': 'encode-error-span', 'key': f'span:{name}', 'codec': label, 'text': hexchars(s),
                                'observed': f'start={exc.start} end={exc.end} len={len(s)}'})
            except Exception as exc:
                b = None
                cex.append({'kind': 'encode-crash', 'key': f'crash:{name}:{type(exc).__name__}', 'codec': label, 'text': hexchars(s),
                            'observed': f'{type(exc).__name__}: {exc}', 'replay': f'{s!r}.encode({name!r})'})
                if isinstance(exc, common.Hang):
                    break
            if b is not None and not isinstance(b, bytes):
                cex.append({'kind': 'encode-not-bytes', 'key': f'type:{name}', 'codec': label, 'text': hexchars(s)})
                continue
            r = R.encode(name, s)
            if r[0] != 'unavailable' and s:
                if (r[0] == 'ok') != (b is not None) or (b is not None and r[1] != b):
                    cex.append({'kind': 'encode-differs-from-iconv', 'key': f'iconv:{name}', 'codec': label, 'text': hexchars(s),
                                'observed': None if b is None else b.hex(), 'iconv': repr(r)})
            if len(cex) > 30:
                break
    chk.coverage.setdefault('falsifier', {})['codecs'] = dict(stats)
    return cex

def binding_safety_probe(chk, count=400):
    """BEFORE anything lets the real iconv write through lib/iconv.py: does the loop ever tell a (scripted, harmless) iconv
    more bytes than it has just allocated?  If so every use of an iconv-backed codec in this process could corrupt memory."""
    rng = chk.rng.__class__(f'probe/{chk.seed}')
    for decode in (True, False):
        for n, rounds in G.iconv_scripts(rng, count, decode=decode):
            if decode:
                data = bytes(rng.randrange(256) for _ in range(n))
                out, s = impl_decloop(data, rounds)
            else:
                data = ''.join(rng.choice('ab€') for _ in range(n))
                out, s = impl_encloop(data, rounds)
            if s.overrun is not None:
                return {'kind': 'told-more-than-allocated', 'key': 'loop:overrun', 'direction': 'decode' if decode else 'encode',
                        'observed': f'allocated {s.overrun[0]} bytes, told iconv {s.overrun[1]}', 'input_len': n,
                        'input': data.hex() if decode else hexchars(data), 'outcome': out,
                        'replay': f"lib.iconv.{'decode' if decode else 'encode'}(<input>, encoding=X) with lib.iconv._iconv replaced by the "
                                  f"scripted iconv {script_text(rounds)[:400]} and ctypes.create_*_buffer observed"}
    return None

def falsify_loop(chk, sizes):
    """the binding itself: never tells iconv more than it allocated; under an honest iconv returns exactly what was produced;
    error spans lie inside the input; with the real iconv agrees with an independent conversion"""
    rng = chk.rng
    I = mods()[1]
    cex = Cex()
    stats = collections.Counter()
    for decode in (True, False):
        for n, rounds in G.iconv_scripts(rng, sizes['loop_scripts'], decode=decode):
            if decode:
                data = bytes(rng.randrange(256) for _ in range(n))
                out, s = impl_decloop(data, rounds)
            else:
                data = ''.join(rng.choice('ab€ж中') for _ in range(n))
                out, s = impl_encloop(data, rounds)
            stats[out.split(' ')[0]] += 1
            what = f"lib.iconv.{'decode' if decode else 'encode'} under the scripted iconv {script_text(rounds)[:300]}"
            if s.overrun is not None:
                cex.append({'kind': 'told-more-than-allocated', 'key': 'loop:overrun', 'observed': f'allocated {s.overrun[0]} told {s.overrun[1]}',
                            'input_len': n, 'replay': what})
            head = out.split(' trace=')[0]
            if head.startswith('uerr'):
                _, a, b = head.split(' ')
                last = rounds[min(s.k, len(rounds) - 1)]
                honest = last[2][1] < (n if decode else 4 * n) and (decode or last[2][1] % 4 == 0)
                if honest and not (0 <= int(a) < int(b) <= n):
                    cex.append({'kind': 'loop-error-span', 'key': 'loop:span', 'observed': head, 'input_len': n, 'replay': what})
            if head.startswith('ok'):
                last = rounds[min(s.k, len(rounds) - 1)]
                produced = last[2][2] + last[3][2]
                if decode:
                    exp = 'ok ' + hexchars(produced.decode('utf-32-le', 'surrogatepass')) if len(produced) % 4 == 0 else None
                else:
                    exp = 'ok ' + hexbytes(produced)
                if exp is not None and head != exp:
                    cex.append({'kind': 'loop-result-is-not-what-iconv-produced', 'key': 'loop:prefix', 'observed': head[:200], 'expected': exp[:200],
                                'replay': what})
            if head.startswith('CRASH'):
                cex.append({'kind': 'loop-crash', 'key': 'loop:' + head, 'observed': head, 'replay': what})
            if len(cex) > 20:
                return cex
    R = ref()
    if R.ok:
        for enc in REAL_LOOP_ENCODINGS:
            if not R.available('UTF-32LE', enc):
                continue
            pool = G.byte_strings_euctw(rng, sizes['loop_real'], plane_sample=sizes['loop_real']) if enc == 'EUC-TW' \
                else G.byte_strings_single(rng, sizes['loop_real'])
            pool = [b for b in rng.sample(pool, min(len(pool), sizes['loop_real'] * 3)) if b]
            pool += [lenient_encode(t, enc) * k for t in ('日本語のテキスト', '한국어', '€uro żółć', '中文') for k in (1, 7, 40)]
            for b in pool:
                if not b:
                    continue
                out, s = impl_real_decode(enc, b)
                head = out.split(' trace=')[0]
                w = R.convert('WCHAR_T', enc, b)
                units = [int.from_bytes((w['main'] + w['flush'])[i:i + 4], 'little') for i in range(0, len(w['main'] + w['flush']) - 3, 4)]
                stats['real:' + head.split(' ')[0]] += 1
                rep = f'lib.iconv.decode(bytes.fromhex({b.hex()!r}), encoding={enc!r})'
                if s.overrun is not None:
                    cex.append({'kind': 'told-more-than-allocated', 'key': 'loop:overrun', 'observed': str(s.overrun), 'encoding': enc, 'bytes': b.hex(),
                                'replay': rep})
                if s.contract_broken:
                    cex.append({'kind': 'iconv-broke-its-contract', 'key': 'loop:contract', 'observed': s.contract_broken, 'encoding': enc,
                                'bytes': b.hex(), 'replay': rep})
                if w['rc'] == 'ok' and any(u > 0x10FFFF for u in units):
                    # glibc handed back a wide character above U+10FFFF (UTF-8 -> WCHAR_T is lenient): the binding raises ValueError.
                    # Not one of the five extra codecs, hence outside the property; counted.
                    stats['real:wchar-out-of-range'] += 1
                    if enc in G.EXTRA_CODECS:
                        cex.append({'kind': 'binding-crash', 'key': f'loop:valerr:{enc}', 'encoding': enc, 'bytes': b.hex(), 'observed': head, 'replay': rep})
                    continue
                if w['rc'] == 'ok':
                    exp = 'ok ' + hexchars(''.join(map(chr, units)))
                    if head != exp:
                        cex.append({'kind': 'binding-differs-from-iconv', 'key': f'loop:real:{enc}', 'encoding': enc, 'bytes': b.hex(),
                                    'observed': head[:200], 'iconv': exp[:200], 'replay': rep})
                elif head.startswith('uerr'):
                    _, a, e = head.split(' ')
                    if not (0 <= int(a) < int(e) <= len(b)) or int(a) != w['consumed']:
                        cex.append({'kind': 'loop-error-span', 'key': 'loop:span', 'encoding': enc, 'bytes': b.hex(), 'observed': head,
                                    'iconv_stopped_at': w['consumed'], 'replay': rep})
                else:
                    cex.append({'kind': 'binding-differs-from-iconv', 'key': f'loop:real:{enc}', 'encoding': enc, 'bytes': b.hex(),
                                'observed': head[:200], 'iconv': w['rc'], 'replay': rep})
                if len(cex) > 20:
                    return cex
    chk.coverage.setdefault('falsifier', {})['iconv-binding'] = dict(stats)
    return cex

def falsify_unrepresentable(chk, charsets, sizes):
    """tag <=> some listed non-optional character cannot be encoded — every language with a list x the given charsets"""
    E, I, L = mods()
    cex = Cex()
    stats = collections.Counter()
    sects = language_sections()
    langs = sorted({l + ('@' + m if m else '') for l, m, _ in sects})
    extra = ['de_AT', 'pt_PT', 'sr_RS@latin', 'zh_SG', 'en_US', 'xx', 'de@euro']
    for lang_str in langs + extra:
        language = parse_lang(lang_str)
        if language is None:
            continue
        chars = reference_characters(lang_str)
        for cs in charsets:
            if chars is None:
                expected = None
            else:
                expected = [c for c in chars if enc_outcome(c, cs) != 'o']
            try:
                got = timed(cs, lambda: language.get_unrepresentable_characters(cs), 30)
            except Exception as exc:
                got = f'{type(exc).__name__}: {exc}'
            stats['none' if got is None else 'crash' if isinstance(got, str) else 'some' if got else 'empty'] += 1
            if got != expected:
                if isinstance(got, str):
                    key = f'unrepresentable:crash:{type(got).__name__}:{cs}'
                    key = f'unrepresentable:crash:{got.split(":")[0]}:{cs}'
                else:
                    key = f'unrepresentable:{lang_str}:{cs}'
                cex.append({'kind': 'unrepresentable-characters', 'key': key, 'language': lang_str, 'charset': cs,
                            'observed': got if isinstance(got, str) else None if got is None else [hexchars(c) for c in got],
                            'expected': None if expected is None else [hexchars(c) for c in expected],
                            'replay': f'lib.ling.parse_language({lang_str!r}).get_unrepresentable_characters({cs!r})'})
                if len(cex) > 10:
                    return cex
    # through check_mime: the tag itself
    sample = [(l, c) for l in chk.rng.sample(langs, min(len(langs), sizes['unrep_e2e'])) for c in chk.rng.sample(charsets, min(3, len(charsets)))]
    for lang_str, cs in sample:
        language = parse_lang(lang_str)
        chars = reference_characters(lang_str)
        out, calls = impl_check(cs, 0, language)
        if calls is None:
            cex.append({'kind': 'check_mime-crash', 'key': f'check-crash:{cs}', 'language': lang_str, 'charset': cs})
            continue
        reported = [extra for tag, extra in calls if tag == 'unrepresentable-characters']
        kept = out.split(' enc=')[-1]
        if kept == '~':
            continue
        final = ''.join(chr(int(x, 16)) for x in kept.split('.')) if kept != '-' else ''
        expected = [c for c in (chars or []) if enc_outcome(c, final) != 'o']
        stats['e2e:' + ('tag' if reported else 'no-tag')] += 1
        if bool(reported) != bool(expected):
            cex.append({'kind': 'unrepresentable-characters tag', 'key': f'unrepresentable-tag:{lang_str}:{cs}', 'language': lang_str, 'charset': cs,
                        'observed': repr(reported)[:200], 'expected': [hexchars(c) for c in expected][:10]})
    chk.coverage.setdefault('falsifier', {})['unrepresentable'] = dict(stats)
    return cex

def corpus_inputs():
    """corpus/C20: inputs that once disagreed or falsified, replayed first on every run.
    names.txt: one JSON string per line; bytes.txt: `<CODEC> <hex>` per line"""
    d = os.path.join(common.VERIF, 'corpus', 'C20')
    names, data = [], []
    try:
        for raw in open(os.path.join(d, 'names.txt'), encoding='utf-8'):
            raw = raw.strip()
            if raw and not raw.startswith('#'):
                names.append(json.loads(raw))
    except OSError:
        pass
    try:
        for raw in open(os.path.join(d, 'bytes.txt'), encoding='utf-8'):
            raw = raw.strip()
            if raw and not raw.startswith('#'):
                c, h = raw.split()
                data.append((c, bytes.fromhex(h)))
    except OSError:
        pass
    return names, data
