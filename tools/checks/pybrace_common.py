"""C13: correspondence streams (`pybrace-*`, `perlbrace-*`), independent readings of the two syntaxes, the running interpreter's
`string.Formatter().parse` / `str.format` as oracle, the falsifier on the real code, the timing stream."""
import os, re, sys, time, string
sys.path.insert(0, os.path.join(os.path.dirname(os.path.abspath(__file__)), '..'))
import common
from gen import pybrace as G

common.setup_repo_import()

_M = {}
def _load(name):
    """lib.strformat.<name> of the repository under test; if it cannot be imported, a stand-in whose FormatString raises the
    import error (so that every input is a concrete crash rather than a harness failure)"""
    if name not in _M:
        try:
            mod = __import__('lib.strformat.' + name, fromlist=[name])
        except BaseException as exc:
            import types
            err = exc
            class Error(Exception):
                pass
            class Broken:
                def __init__(self, s):
                    raise RuntimeError(f'lib.strformat.{name} cannot be imported: {type(err).__name__}: {err}')
            mod = types.SimpleNamespace(FormatString=Broken, Error=Error, SSIZE_MAX=2 ** 31 - 1, Field=Broken, NestedField=Broken)
        _M[name] = mod
    return _M[name]

def M():
    return _load('pybrace')

def P():
    return _load('perlbrace')

def hexchars(s):
    return '.'.join('%x' % ord(c) for c in s) if s else '-'

def representable(s):
    """Lean's Char has no lone surrogates"""
    return not any(0xD800 <= ord(c) <= 0xDFFF for c in s)

# ------------------------------------------------------------------ the real code, canonically

def _types(t):
    return '+'.join(sorted(t))

def _key(k):
    return ('i%d' % k) if isinstance(k, int) else 's' + hexchars(k)

def impl_parse(s):
    """canonical one-liner of `pybrace.FormatString(s)`: same grammar as Driver/PyBrace.lean `showResult`"""
    m = M()
    try:
        fmt = m.FormatString(s)
    except Exception as exc:
        if isinstance(exc, m.Error):
            a = exc.args[0] if exc.args else None
            return f"err {type(exc).__name__} {hexchars(a) if isinstance(a, str) else 'OBJ'}"
        return 'err crash:' + type(exc).__name__
    try:
        its = ','.join(('L:' + hexchars(x)) if isinstance(x, str) else ('F:' + _types(x.types)) for x in fmt)
        mp = ';'.join(_key(k) + '=' + ','.join(('N:' if isinstance(a, m.NestedField) else 'F:') + _types(a.types) for a in args)
                      for k, args in fmt.argument_map.items())
        return f"ok items=[{its}] map=[{mp}]"
    except Exception as exc:
        return 'err attr:' + type(exc).__name__

def impl_parse_cfg(s, ssize, limit):
    """the same under a patched module global SSIZE_MAX and interpreter digit limit"""
    m = M()
    old_s, old_l = getattr(m, 'SSIZE_MAX', None), sys.get_int_max_str_digits()
    try:
        m.SSIZE_MAX = ssize
        sys.set_int_max_str_digits(limit)
        return impl_parse(s)
    finally:
        m.SSIZE_MAX = old_s
        sys.set_int_max_str_digits(old_l)

def impl_spec(spec):
    """canonical reading of `_format_spec_re.match(spec)` (Driver `showSpec`)"""
    m = M()
    try:
        fm = m._format_spec_re.match(spec)
        if fm is None:
            return 'nomatch'
        g = fm.group
        def o(x):
            return '~' if x is None else hexchars(x)
        def b(x):
            return 'true' if x else 'false'
        return (f"fill={o(g('fill'))} align={o(g('align'))} sign={o(g('sign'))} alt={b(g('alt'))} zero={b(g('zero'))} width={o(g('width'))} "
                f"comma={b(g('comma'))} precision={o(g('precision'))} type={o(g('type'))}")
    except Exception as exc:
        return 'err ' + type(exc).__name__

def impl_perl(s):
    p = P()
    try:
        fmt = p.FormatString(s)
    except Exception as exc:
        if isinstance(exc, p.Error):
            a = exc.args[0] if exc.args else None
            return f"err Error {hexchars(a) if isinstance(a, str) else 'OBJ'}"
        return 'err crash:' + type(exc).__name__
    try:
        its = []
        for x in fmt:
            its.append('F:' + hexchars(x[1:-1]) if x.startswith('{') else 'L:' + hexchars(x))
        return f"ok items=[{','.join(its)}] args=[{','.join(hexchars(a) for a in sorted(fmt.arguments))}]"
    except Exception as exc:
        return 'err attr:' + type(exc).__name__

# ------------------------------------------------------------------ input families

def corpus():
    d = os.path.join(common.VERIF, 'corpus', 'C13')
    out = {'py': [], 'perl': []}
    if os.path.isdir(d):
        for f in sorted(os.listdir(d)):
            with open(os.path.join(d, f), encoding='utf-8', newline='') as fh:
                text = fh.read()
            out['perl' if f.startswith('perl-') else 'py'].append(text)
    return out

def tables():
    """the interpreter's \\w and \\d range tables (recomputed here, independently of the translator)"""
    def ranges(pred):
        res, start = [], None
        for cp in range(0x110000):
            if pred(chr(cp)):
                if start is None:
                    start = cp
            elif start is not None:
                res.append((start, cp - 1)); start = None
        if start is not None:
            res.append((start, 0x10FFFF))
        return res
    w = re.compile(r'\w'); d = re.compile(r'\d')
    return ranges(lambda c: w.match(c) is not None), ranges(lambda c: d.match(c) is not None)

def py_inputs(chk, n_single, n_multi, n_bad, short_len):
    rng = chk.rng
    fam = {}
    fam['boundary'] = G.boundary_strings()
    fam['fixed'] = G.fixed_singles()
    cps = G.interesting_codepoints(tables())
    if not chk.thorough:
        low = [c for c in cps if c < 0x180]
        high = [c for c in cps if c >= 0x180]
        cps = low + rng.sample(high, min(len(high), 700))
    fam['context'] = G.context_strings(G.PY_SLOTS, cps)
    fam['short'] = G.short_strings(short_len, G.PY_ALPHABET) + G.short_strings(short_len + 2, G.PY_ALPHABET2)
    fam['single'] = G.singles(rng, n_single)
    multi = []
    for _ in range(n_multi):
        multi.append(G.gen_clash(rng) if rng.random() < 0.15 else G.gen_string(rng))
    fam['multi'] = multi
    bad = []
    for _ in range(n_bad):
        r = rng.random()
        if r < 0.3:
            bad.append(G.gen_garbage(rng))
        else:
            s = rng.choice(multi) if multi and r < 0.8 else rng.choice(fam['fixed'])
            s = G.mutate(rng, s)
            if rng.random() < 0.3:
                s = G.mutate(rng, s)
            bad.append(s)
    fam['malformed'] = bad
    return fam

def perl_inputs(chk, n_multi, n_bad, short_len):
    rng = chk.rng
    fam = {}
    cps = G.interesting_codepoints(tables())
    if not chk.thorough:
        low = [c for c in cps if c < 0x180]
        high = [c for c in cps if c >= 0x180]
        cps = low + rng.sample(high, min(len(high), 1200))
    fam['context'] = G.context_strings(G.PERL_SLOTS, cps)
    fam['short'] = G.short_strings(short_len, G.PERL_ALPHABET, need='')
    multi = [G.gen_perl(rng) for _ in range(n_multi)]
    fam['multi'] = multi
    bad = []
    for _ in range(n_bad):
        r = rng.random()
        if r < 0.3:
            bad.append(G.gen_garbage(rng, G.PERL_GARBAGE))
        else:
            s = G.mutate(rng, rng.choice(multi), G.PERL_GARBAGE)
            bad.append(s)
    fam['malformed'] = bad
    return fam

# ------------------------------------------------------------------ correspondence streams

def run_parse_stream(chk, fam, prefix='pybrace', impl=impl_parse):
    res = {}
    for name, strings in fam.items():
        strings = [s for s in strings if representable(s)]
        if not strings:
            continue
        lines = [f'{prefix} parse ' + hexchars(s) for s in strings]
        outs = [impl(s) for s in strings]
        dis, _model = chk.stream(f'{prefix}-' + name, lines, outs)
        res[name] = [strings[i] for i in dis]
        chk.note_cases({(prefix, s) for s, o in zip(strings, outs) if o.startswith('ok ') and ('F:' in o)})
    return res

def run_cfg_stream(chk, strings):
    """the overflow / digit-limit branches: the model under other constants against the code with the module global and the
    interpreter setting patched"""
    lines, outs, used = [], [], []
    for s in strings:
        if not representable(s):
            continue
        for ssize, limit in ((3, 0), (0, 0), (2 ** 31 - 1, 4300), (5, 640)):
            lines.append(f'pybrace parse-cfg {ssize} {limit} ' + hexchars(s))
            outs.append(impl_parse_cfg(s, ssize, limit))
            used.append(s)
    dis, _ = chk.stream('pybrace-cfg', lines, outs)
    return [used[i] for i in dis]

def run_spec_stream(chk, specs):
    specs = [s for s in specs if representable(s)]
    lines = ['pybrace spec ' + hexchars(s) for s in specs]
    outs = [impl_spec(s) for s in specs]
    dis, _ = chk.stream('pybrace-spec', lines, outs)
    return ['{:' + specs[i] + '}' for i in dis]
