"""C13: correspondence streams (`pybrace-*`, `perlbrace-*`), independent readings of the two syntaxes, the running interpreter's
`string.Formatter().parse` / `str.format` as oracle, the falsifier on the real code, the timing stream."""
import os, re, sys, time, string
sys.path.insert(0, os.path.join(os.path.dirname(os.path.abspath(__file__)), '..'))
import common
from gen import pybrace as G

common.setup_repo_import()

_M = {}
def _load(name):
    """lib.strformat.<name> of the repository under test; if it cannot be imported, a stand-in whose FormatString raises the
    import error (so that every input is a concrete crash rather than a harness failure)"""
    if name not in _M:
        try:
            mod = __import__('lib.strformat.' + name, fromlist=[name])
        except BaseException as exc:
            import types
            err = exc
            class Error(Exception):
                pass
            class Broken:
                def __init__(self, s):
                    raise RuntimeError(f'lib.strformat.{name} cannot be imported: {type(err).__name__}: {err}')
            mod = types.SimpleNamespace(FormatString=Broken, Error=Error, SSIZE_MAX=2 ** 31 - 1, Field=Broken, NestedField=Broken)
        _M[name] = mod
    return _M[name]

def M():
    return _load('pybrace')

def P():
    return _load('perlbrace')

def hexchars(s):
    return '.'.join('%x' % ord(c) for c in s) if s else '-'

# --- every call into the code under test is guarded by a timer: a modified regex may backtrack exponentially, and the
#     regex engine checks for signals while matching.  CPU time (ITIMER_PROF), so that a loaded machine does not fire it;
#     a signal that arrives after the guarded region was left is ignored.
import signal, contextlib

class Timeout(BaseException):
    pass

_armed = [False]

def _on_alarm(signum, frame):
    if _armed[0]:
        _armed[0] = False
        raise Timeout()

signal.signal(signal.SIGPROF, _on_alarm)
CALL_LIMIT = 3.0
TIMED_OUT = []          # inputs on which the code under test exceeded CALL_LIMIT

@contextlib.contextmanager
def limit(seconds):
    """raise Timeout inside the block after `seconds` of CPU time"""
    _armed[0] = True
    signal.setitimer(signal.ITIMER_PROF, seconds)
    try:
        yield
    finally:
        _armed[0] = False
        signal.setitimer(signal.ITIMER_PROF, 0)

def guarded(fn, s, *args):
    """fn(s, *args) under the timer; 'err timeout' if it does not return in CALL_LIMIT seconds"""
    if len(TIMED_OUT) >= 8:
        return 'err timeout-skipped'      # enough concrete slow inputs: do not spend CALL_LIMIT on every further string
    try:
        with limit(CALL_LIMIT):
            return fn(s, *args)
    except Timeout:
        TIMED_OUT.append((getattr(fn, '__name__', '?'), s))
        return 'err timeout'

def representable(s):
    """Lean's Char has no lone surrogates"""
    return not any(0xD800 <= ord(c) <= 0xDFFF for c in s)

# ------------------------------------------------------------------ the real code, canonically

def _types(t):
    return '+'.join(sorted(t))

def _key(k):
    return ('i%d' % k) if isinstance(k, int) else 's' + hexchars(k)

def impl_parse(s):
    """canonical one-liner of `pybrace.FormatString(s)`: same grammar as Driver/PyBrace.lean `showResult`"""
    m = M()
    try:
        fmt = m.FormatString(s)
    except Exception as exc:
        if isinstance(exc, m.Error):
            a = exc.args[0] if exc.args else None
            return f"err {type(exc).__name__} {hexchars(a) if isinstance(a, str) else 'OBJ'}"
        return 'err crash:' + type(exc).__name__
    try:
        its = ','.join(('L:' + hexchars(x)) if isinstance(x, str) else ('F:' + _types(x.types)) for x in fmt)
        mp = ';'.join(_key(k) + '=' + ','.join(('N:' if isinstance(a, m.NestedField) else 'F:') + _types(a.types) for a in args)
                      for k, args in fmt.argument_map.items())
        return f"ok items=[{its}] map=[{mp}]"
    except Exception as exc:
        return 'err attr:' + type(exc).__name__

def impl_parse_cfg(s, ssize, limit):
    """the same under a patched module global SSIZE_MAX and interpreter digit limit"""
    m = M()
    old_s, old_l = getattr(m, 'SSIZE_MAX', None), sys.get_int_max_str_digits()
    try:
        m.SSIZE_MAX = ssize
        sys.set_int_max_str_digits(limit)
        return impl_parse(s)
    finally:
        m.SSIZE_MAX = old_s
        sys.set_int_max_str_digits(old_l)

def impl_spec(spec):
    """canonical reading of `_format_spec_re.match(spec)` (Driver `showSpec`)"""
    m = M()
    try:
        fm = m._format_spec_re.match(spec)
        if fm is None:
            return 'nomatch'
        g = fm.group
        def o(x):
            return '~' if x is None else hexchars(x)
        def b(x):
            return 'true' if x else 'false'
        return (f"fill={o(g('fill'))} align={o(g('align'))} sign={o(g('sign'))} alt={b(g('alt'))} zero={b(g('zero'))} width={o(g('width'))} "
                f"comma={b(g('comma'))} precision={o(g('precision'))} type={o(g('type'))}")
    except Exception as exc:
        return 'err ' + type(exc).__name__

def impl_perl(s):
    p = P()
    try:
        fmt = p.FormatString(s)
    except Exception as exc:
        if isinstance(exc, p.Error):
            a = exc.args[0] if exc.args else None
            return f"err Error {hexchars(a) if isinstance(a, str) else 'OBJ'}"
        return 'err crash:' + type(exc).__name__
    try:
        its = []
        for x in fmt:
            its.append('F:' + hexchars(x[1:-1]) if x.startswith('{') else 'L:' + hexchars(x))
        return f"ok items=[{','.join(its)}] args=[{','.join(hexchars(a) for a in sorted(fmt.arguments))}]"
    except Exception as exc:
        return 'err attr:' + type(exc).__name__

# ------------------------------------------------------------------ input families

def corpus():
    d = os.path.join(common.VERIF, 'corpus', 'C13')
    out = {'py': [], 'perl': []}
    if os.path.isdir(d):
        for f in sorted(os.listdir(d)):
            with open(os.path.join(d, f), encoding='utf-8', newline='') as fh:
                text = fh.read()
            out['perl' if f.startswith('perl-') else 'py'].append(text)
    return out

def tables():
    """the interpreter's \\w and \\d range tables (recomputed here, independently of the translator)"""
    def ranges(pred):
        res, start = [], None
        for cp in range(0x110000):
            if pred(chr(cp)):
                if start is None:
                    start = cp
            elif start is not None:
                res.append((start, cp - 1)); start = None
        if start is not None:
            res.append((start, 0x10FFFF))
        return res
    w = re.compile(r'\w'); d = re.compile(r'\d')
    return ranges(lambda c: w.match(c) is not None), ranges(lambda c: d.match(c) is not None)

def py_inputs(chk, n_single, n_multi, n_bad, short_len):
    rng = chk.rng
    fam = {}
    fam['boundary'] = G.boundary_strings()
    fam['fixed'] = G.fixed_singles()
    cps = G.interesting_codepoints(tables())
    if not chk.thorough:
        low = [c for c in cps if c < 0x180]
        high = [c for c in cps if c >= 0x180]
        cps = low + rng.sample(high, min(len(high), 700))
    fam['context'] = G.context_strings(G.PY_SLOTS, cps)
    fam['short'] = G.short_strings(short_len, G.PY_ALPHABET) + G.short_strings(short_len + (2 if chk.thorough else 1), G.PY_ALPHABET2)
    fam['single'] = G.singles(rng, n_single)
    multi = []
    for _ in range(n_multi):
        multi.append(G.gen_clash(rng) if rng.random() < 0.15 else G.gen_string(rng))
    fam['multi'] = multi
    bad = []
    for _ in range(n_bad):
        r = rng.random()
        if r < 0.3:
            bad.append(G.gen_garbage(rng))
        else:
            s = rng.choice(multi) if multi and r < 0.8 else rng.choice(fam['fixed'])
            s = G.mutate(rng, s)
            if rng.random() < 0.3:
                s = G.mutate(rng, s)
            bad.append(s)
    fam['malformed'] = bad
    return fam

def perl_inputs(chk, n_multi, n_bad, short_len):
    rng = chk.rng
    fam = {}
    cps = G.interesting_codepoints(tables())
    if not chk.thorough:
        low = [c for c in cps if c < 0x180]
        high = [c for c in cps if c >= 0x180]
        cps = low + rng.sample(high, min(len(high), 1200))
    fam['context'] = G.context_strings(G.PERL_SLOTS, cps)
    fam['short'] = G.short_strings(short_len, G.PERL_ALPHABET, need='')
    multi = [G.gen_perl(rng) for _ in range(n_multi)]
    fam['multi'] = multi
    bad = []
    for _ in range(n_bad):
        r = rng.random()
        if r < 0.3:
            bad.append(G.gen_garbage(rng, G.PERL_GARBAGE))
        else:
            s = G.mutate(rng, rng.choice(multi), G.PERL_GARBAGE)
            bad.append(s)
    fam['malformed'] = bad
    return fam

# ------------------------------------------------------------------ correspondence streams

def run_parse_stream(chk, fam, prefix='pybrace', impl=impl_parse):
    res = {}
    for name, strings in fam.items():
        strings = [s for s in strings if representable(s)]
        if not strings:
            continue
        lines = [f'{prefix} parse ' + hexchars(s) for s in strings]
        outs = [guarded(impl, s) for s in strings]
        dis, _model = chk.stream(f'{prefix}-' + name, lines, outs)
        res[name] = [strings[i] for i in dis]
        chk.note_cases({(prefix, s) for s, o in zip(strings, outs) if o.startswith('ok ') and ('F:' in o)})
    return res

def run_cfg_stream(chk, strings):
    """the overflow / digit-limit branches: the model under other constants against the code with the module global and the
    interpreter setting patched"""
    lines, outs, used = [], [], []
    for s in strings:
        if not representable(s):
            continue
        for ssize, limit in ((3, 0), (0, 0), (2 ** 31 - 1, 4300), (5, 640)):
            lines.append(f'pybrace parse-cfg {ssize} {limit} ' + hexchars(s))
            outs.append(guarded(impl_parse_cfg, s, ssize, limit))
            used.append(s)
    dis, _ = chk.stream('pybrace-cfg', lines, outs)
    return [used[i] for i in dis]

def run_spec_stream(chk, specs):
    specs = [s for s in specs if representable(s)]
    lines = ['pybrace spec ' + hexchars(s) for s in specs]
    outs = [guarded(impl_spec, s) for s in specs]
    dis, _ = chk.stream('pybrace-spec', lines, outs)
    return ['{:' + specs[i] + '}' for i in dis]

# ------------------------------------------------------------------ the oracle: the running interpreter

_MARKUP_MSG = [
    ("Single '}' encountered", 'singleClose'), ("Single '{' encountered", 'singleOpen'), ("unexpected '{' in field name", 'openInName'),
    ("expected '}' before end of string", 'expectedClose'), ('end of string while looking for conversion', 'endInConversion'),
    ("expected ':' after conversion specifier", 'expectedColon'), ("unmatched '{' in format spec", 'unmatchedOpen'),
]

def _markup_kind(msg):
    for pre, kind in _MARKUP_MSG:
        if msg.startswith(pre):
            return kind
    return None

_FORMATTER = string.Formatter()

def oracle_parse(s):
    """`list(string.Formatter().parse(s))`, canonically (Driver `showMarkup`)"""
    try:
        chunks = list(_FORMATTER.parse(s))
    except ValueError as exc:
        return 'err ' + (_markup_kind(str(exc)) or 'ValueError:' + str(exc)[:40])
    except Exception as exc:
        return 'err ' + type(exc).__name__
    out = []
    for lit, name, spec, conv in chunks:
        if name is None:
            out.append('L:' + hexchars(lit))
        else:
            out.append(f"L:{hexchars(lit)}|N:{hexchars(name)}|S:{hexchars(spec)}|C:{'~' if conv is None else hexchars(conv)}")
    return 'ok ' + ';'.join(out)

def oracle_parses(s):
    try:
        for _ in _FORMATTER.parse(s):
            pass
        return True
    except ValueError:
        return False

_SPEC_MSG = [
    ('Too many decimal digits', 'tooManyDigits'), ("Cannot specify both ',' and '_'", 'commaAndUnderscore'), ('Format specifier missing precision', 'missingPrecision'),
    ('Invalid format specifier', 'invalidSpecifier'), ("Cannot specify ','", 'thousandsWithType'), ("Cannot specify '_'", 'thousandsWithType'),
    ('Precision not allowed in integer', 'precisionInt'), ('Negative zero coercion (z) not allowed in integer', 'negZeroInt'),
    ("Sign not allowed with integer format specifier 'c'", 'signWithC'), ("Alternate form (#) not allowed with integer format specifier 'c'", 'altWithC'),
    ('Unknown format code', 'unknownCode'), ('precision too big', 'precisionTooBig'), ('Sign not allowed in string', 'signStr'),
    ('Space not allowed in string', 'spaceStr'), ('Negative zero coercion (z) not allowed in string', 'negZeroStr'),
    ('Alternate form (#) not allowed in string', 'altStr'), ("'=' alignment not allowed in string", 'eqAlignStr'),
]

def classify_format(exc):
    n, msg = type(exc).__name__, str(exc)
    if n == 'ValueError':
        k = _markup_kind(msg)
        if k:
            return 'markup:' + k
        if msg.startswith('cannot switch from manual'): return 'manualToAuto'
        if msg.startswith('cannot switch from automatic'): return 'autoToManual'
        if msg.startswith('Unknown conversion specifier'): return 'unknownConversion'
        if msg.startswith('Too many decimal digits'): return 'tooManyDigits?'      # field index or specification: resolved by the caller
        for pre, kind in _SPEC_MSG:
            if msg.startswith(pre):
                return 'spec:' + kind
        return 'ValueError:' + msg[:40]
    if n == 'IndexError': return 'indexError'
    if n == 'KeyError': return 'keyError'
    if n == 'OverflowError':
        if 'not in range(0x110000)' in msg or 'too large to convert to C long' in msg: return 'spec:chrRange'
        if 'too large to convert to float' in msg: return 'spec:intTooLarge'
    return n + ':' + msg[:40]

def oracle_format(s, pos, kw):
    try:
        s.format(*pos, **kw)
    except Exception as exc:
        return 'err ' + classify_format(exc)
    return 'ok'

def val_token(v):
    if type(v) is int: return 'i%d' % v
    if type(v) is float: return 'f'
    return 's'

def args_token(pos, kw):
    return 'P:' + ','.join(val_token(v) for v in pos) + '|K:' + ';'.join(hexchars(k) + '=' + val_token(v) for k, v in kw.items())

# --- an independent reading of a format string, from the library reference ("Format String Syntax"): used to choose arguments,
#     to decide flatness and to keep the oracle from allocating

def ref_fields(s):
    """[(field_name, conversion, format_spec)] by brace counting (no regex); None if the braces do not pair up"""
    out, i, n = [], 0, len(s)
    while i < n:
        c = s[i]
        if c == '{':
            if i + 1 < n and s[i + 1] == '{':
                i += 2; continue
            j, depth, inbr, name_done = i + 1, 1, False, False
            start = j
            # the field name ends at the first ! or : outside brackets
            while j < n:
                d = s[j]
                if not name_done:
                    if inbr:
                        if d == ']': inbr = False
                    elif d == '[': inbr = True
                    elif d == '{': return None
                    elif d == '}': break
                    elif d in '!:': name_done = True; name_end = j; continue
                else:
                    break
                j += 1
            if j >= n:
                return None
            if not name_done:
                out.append((s[start:j], None, '')); i = j + 1; continue
            name = s[start:name_end]
            j = name_end
            conv = None
            if s[j] == '!':
                if j + 1 >= n: return None
                conv = s[j + 1]; j += 2
                if j >= n: return None
                if s[j] == '}':
                    out.append((name, conv, '')); i = j + 1; continue
                if s[j] != ':': return None
            j += 1
            spec_start, depth = j, 1
            while j < n:
                if s[j] == '{': depth += 1
                elif s[j] == '}':
                    depth -= 1
                    if depth == 0: break
                j += 1
            if j >= n:
                return None
            out.append((name, conv, s[spec_start:j])); i = j + 1
        elif c == '}':
            if i + 1 < n and s[i + 1] == '}':
                i += 2; continue
            return None
        else:
            i += 1
    return out

def ref_flat(s):
    """no attribute/index part in any field name, no replacement field inside a format specification"""
    fs = ref_fields(s)
    return fs is not None and all('.' not in nm and '[' not in nm and '{' not in sp for nm, cv, sp in fs)

CAP = 10 ** 4
_NUM = re.compile(r'[0-9]+')      # ASCII runs; other decimal digits are handled through int()

def oracle_safe(s):
    """may `s.format(…)` be evaluated without allocating much?  every decimal run (any script) that could be a width or a precision
    must be small or overflow CPython's parser (> 2^63-1)"""
    run = ''
    for c in s + ' ':
        if c.isdecimal():
            run += c
        else:
            if run and len(run) < 4000:
                v = int(run)
                if CAP < v <= 2 ** 63 - 1:
                    return False
            run = ''
    return True

VALS = {'int': (65, 0, 1114111, -3, 2 ** 70), 'float': (1.5, -0.0, 1e300, float('inf')), 'str': ('a', '', 'é' * 3)}
ODD_INTS = (-1, 1114112, 2 ** 1024 - 2 ** 970, 2 ** 1024 - 2 ** 970 - 1, -(2 ** 1024))

def gen_args(rng, s):
    """(pos, kw) that mostly fit the string (by the independent reading), then perturbed"""
    fs = ref_fields(s) or []
    npos, names = 0, []
    auto = 0
    for nm, cv, sp in fs:
        first = re.split(r'[.\[]', nm, maxsplit=1)[0]
        if first == '':
            auto += 1
        elif first.isdecimal():
            try:
                npos = max(npos, int(first) + 1)
            except ValueError:
                pass
        else:
            names.append(first)
    npos = min(max(npos, auto), 40)
    def val():
        r = rng.random()
        if r < 0.4: return rng.choice(VALS['int'])
        if r < 0.46: return rng.choice(ODD_INTS)
        if r < 0.73: return rng.choice(VALS['float'])
        return rng.choice(VALS['str'])
    pos = [val() for _ in range(npos)]
    kw = {k: val() for k in names}
    r = rng.random()
    if r < 0.06 and pos:
        pos.pop()
    elif r < 0.1:
        pos.append(val())
    elif r < 0.14 and kw:
        kw.pop(rng.choice(sorted(kw)))
    elif r < 0.17:
        kw['extra'] = 1
    return pos, kw

def run_cpyparse_stream(chk, strings):
    strings = [s for s in strings if representable(s)]
    lines = ['pybrace cpy-parse ' + hexchars(s) for s in strings]
    outs = [oracle_parse(s) for s in strings]
    dis, _ = chk.stream('pybrace-cpyparse', lines, outs)
    return [strings[i] for i in dis]

def run_cpyformat_stream(chk, strings, per_string=2):
    """`Spec.StrFormat.format` against the running interpreter's `str.format` on (format, arguments) pairs; the reference
    answers `outside` for compound / nested fields: those pairs are counted and left out"""
    rng = chk.rng
    lines, outs, pairs = [], [], []
    skipped = 0
    for s in strings:
        if not representable(s):
            continue
        if not oracle_safe(s):
            skipped += 1
            continue
        for _ in range(per_string):
            pos, kw = gen_args(rng, s)
            if not all(representable(k) and k.isidentifier() or True for k in kw):
                continue
            lines.append('pybrace cpy-format ' + hexchars(s) + ' ' + args_token(pos, kw))
            outs.append(oracle_format(s, pos, kw))
            pairs.append((s, pos, kw))
    model = common.run_driver(lines)
    st = chk.coverage['streams'].setdefault('pybrace-cpyformat', {'cases': 0, 'disagreements': 0, 'outcomes': {}, 'outside_reference': 0, 'skipped_for_allocation': 0})
    st['skipped_for_allocation'] += skipped
    dis = []
    for i, (a, b) in enumerate(zip(outs, model)):
        if b == 'err outside':
            st['outside_reference'] += 1
            continue
        if a == 'err tooManyDigits?':
            a = b if b in ('err tooManyDigits', 'err spec:tooManyDigits') else a
        st['cases'] += 1
        key = a
        st['outcomes'][key] = st['outcomes'].get(key, 0) + 1
        if a != b:
            dis.append(i)
    st['disagreements'] += len(dis)
    chk.evaluations += len(lines)
    for i in dis[:5]:
        chk.broken.append({'kind': 'correspondence', 'stream': 'pybrace-cpyformat', 'line': lines[i], 'impl': outs[i], 'model': model[i],
                           'format': pairs[i][0], 'args': repr(pairs[i][1:])[:200]})
    return [pairs[i] for i in dis]

# ------------------------------------------------------------------ falsifier: the property on the real code

def _short(s):
    return s if len(s) < 300 else s[:120] + f'…[{len(s)} chars]…' + s[-60:]

SAMPLE = {'int': (65, 0, 7), 'float': (1.5, -0.25, 1e300), 'str': ('a', '', 'é')}

def args_from_signature(fmt, variant=0):
    """(pos, kw) with a value of a reported type under every reported key; None if it cannot be built (huge index)"""
    am = fmt.argument_map
    idx = [k for k in am if isinstance(k, int)]
    if idx and max(idx) > 5000:
        return None
    pos = [0] * (max(idx) + 1 if idx else 0)
    kw = {}
    for j, (k, args) in enumerate(am.items()):
        types = sorted(set.intersection(*[set(a.types) for a in args])) if args else []
        if not types:
            return None
        tp = types[(variant + j) % len(types)]
        v = SAMPLE[tp][variant % 3]
        if isinstance(k, int):
            pos[k] = v
        else:
            kw[k] = v
    return pos, kw

def _accept_key(msg):
    m = re.match(r"Cannot specify ',' with '([bcoxX])'\.", msg)
    if m:
        return 'accept:comma-with-bcoxX'
    if msg.startswith("Sign not allowed with integer format specifier 'c'") or msg.startswith("Alternate form (#) not allowed with integer format specifier 'c'"):
        return 'accept:sign-or-alt-with-c'
    return None

def check_py(s, stats=None):
    """C13 (python-brace) evaluated on the real code for one string, with the running interpreter as oracle.
    None or a replay dict (with 'key' for the known-finding match)."""
    m = M()
    rep = {'parser': 'pybrace', 'input': _short(s), 'input_hex': hexchars(s) if len(s) < 2000 else None,
           'replay': f'import lib.strformat.pybrace as M; M.FormatString({s!r})' if len(s) < 2000 else 'see input'}
    def count(k):
        if stats is not None:
            stats[k] = stats.get(k, 0) + 1
    try:
        with limit(CALL_LIMIT):
            fmt = m.FormatString(s)
    except m.Error as exc:
        count('rejected:' + type(exc).__name__)
        return None                       # rejecting is always allowed
    except Timeout:
        rep.update(kind='time-timeout', observed=f'FormatString did not return within {CALL_LIMIT} s (CPU) on {len(s)} characters',
                   expected='time linear in the length of the string', key='time:pybrace:' + s[:40])
        return rep
    except Exception as exc:
        rep.update(kind='crash', observed=f'{type(exc).__name__}: {exc}'[:200], expected="only the module's own Error classes",
                   key=f'crash:{type(exc).__name__}:{s[:80]}')
        return rep
    if not oracle_parses(s):
        rep.update(kind='accepted-but-python-rejects', observed=oracle_parse(s), expected='string.Formatter().parse(s) succeeds',
                   key='parse:' + s[:80])
        return rep
    if not ref_flat(s):
        count('accepted-nonflat')
        return None
    if not oracle_safe(s):
        count('accepted-not-run(allocation)')
        return None
    for variant in range(3):
        try:
            sig = args_from_signature(fmt, variant)
        except Exception as exc:
            rep.update(kind='signature-unusable', observed=f'{type(exc).__name__}: {exc}'[:200], expected='argument_map with .types', key='signature:' + s[:80])
            return rep
        if sig is None:
            # an index no argument tuple can be built for; above PY_SSIZE_T_MAX CPython fails whatever the arguments
            try:
                s.format()
            except ValueError as exc:
                if 'Too many decimal digits' in str(exc):
                    rep.update(kind='accepted-but-format-fails', observed=f'{s!r}.format(...) -> ValueError: {exc} (whatever the arguments)'[:300],
                               expected='str.format succeeds with arguments of the reported positions, names and types', args='any',
                               key='accept:index-above-PY_SSIZE_T_MAX:' + s[:40])
                    return rep
            except Exception:
                pass
            count('accepted-not-run(index)')
            return None
        pos, kw = sig
        try:
            s.format(*pos, **kw)
        except Exception as exc:
            msg = str(exc)
            rep.update(kind='accepted-but-format-fails', observed=f'{s!r}.format(*{pos!r}, **{kw!r}) -> {type(exc).__name__}: {msg}'[:300],
                       expected='str.format succeeds with arguments of the reported positions, names and types', args=repr((pos, kw))[:300],
                       key=_accept_key(msg) or 'accept:' + s[:80])
            return rep
    count('accepted-formatted')
    return None

def ref_perl(s):
    """independent reference for perl-brace: None if some `{` does not open a `{identifier}` placeholder, else the set of identifiers.
    identifier = [^\\W\\d]\\w*, spelled with str methods: \\w = isalnum or '_', \\d = isdecimal"""
    names, i, n = set(), 0, len(s)
    def word(c):
        return c.isalnum() or c == '_'
    while i < n:
        if s[i] != '{':
            i += 1
            continue
        j = i + 1
        if j >= n or not word(s[j]) or s[j].isdecimal():
            return None
        while j < n and word(s[j]):
            j += 1
        if j >= n or s[j] != '}':
            return None
        names.add(s[i + 1:j])
        i = j + 1
    return names

def check_perl(s, stats=None):
    p = P()
    rep = {'parser': 'perlbrace', 'input': _short(s), 'input_hex': hexchars(s) if len(s) < 2000 else None,
           'replay': f'import lib.strformat.perlbrace as P; P.FormatString({s!r})' if len(s) < 2000 else 'see input'}
    want = ref_perl(s)
    try:
        with limit(CALL_LIMIT):
            fmt = p.FormatString(s)
            got = set(fmt.arguments)
    except p.Error:
        got = None
    except Timeout:
        rep.update(kind='time-timeout', observed=f'FormatString did not return within {CALL_LIMIT} s (CPU) on {len(s)} characters',
                   expected='time linear in the length of the string', key='time:perlbrace:' + s[:40])
        return rep
    except Exception as exc:
        rep.update(kind='crash', observed=f'{type(exc).__name__}: {exc}'[:200], expected="only the module's own Error class",
                   key=f'perl-crash:{type(exc).__name__}:{s[:80]}')
        return rep
    if stats is not None:
        k = 'perl-accepted' if got is not None else 'perl-rejected'
        stats[k] = stats.get(k, 0) + 1
    if (got is None) != (want is None):
        rep.update(kind='perl-acceptance', observed='accepted' if got is not None else 'rejected',
                   expected='accepted iff every { opens a {identifier} placeholder: ' + ('well-formed' if want is not None else 'not well-formed'),
                   key='perl-accept:' + s[:80])
        return rep
    if got is not None and got != want:
        rep.update(kind='perl-names', observed=sorted(got), expected=sorted(want), key='perl-names:' + s[:80])
        return rep
    return None

def shrink(s, kind, fn, limit=3000):
    """delete chunks while the same kind of violation remains (delta debugging, bounded)"""
    cur, calls = s, 0
    changed = True
    while changed and calls < limit:
        changed = False
        for size in (16, 8, 4, 2, 1):
            i = 0
            while i < len(cur) and calls < limit:
                cand = cur[:i] + cur[i + size:]
                calls += 1
                r = fn(cand)
                if r is not None and r.get('kind') == kind:
                    cur, changed = cand, True
                else:
                    i += 1
    return cur

def falsify(chk, strings, budget, stats, fn):
    """the property on the real code; returns (first genuine counterexample (shrunk) or None, tried)"""
    tried = 0
    seen = set()
    for s in strings:
        if tried >= budget:
            break
        if s in seen:
            continue
        seen.add(s)
        tried += 1
        rep = fn(s, stats)
        if rep is None:
            continue
        if not chk.match_known(rep['key']):
            small = shrink(s, rep['kind'], fn)
            if small != s:
                rep2 = fn(small)
                if rep2 is not None and rep2.get('kind') == rep['kind']:
                    rep2['found_as'] = rep['input']
                    rep = rep2
        key = rep.pop('key')
        if chk.violation(rep['kind'], rep, key=key):
            return rep, tried
        stats['known-finding:' + key] = stats.get('known-finding:' + key, 0) + 1
    return None, tried

# ------------------------------------------------------------------ time: regex screen + timing stream (test level, not proof)

def regex_screen():
    """structural screen of the live parse trees: every unbounded repeat whose body contains another unbounded repeat (the
    (a*)* / (a|b*)* shapes) or a branch with overlapping first characters; returns descriptions and sample characters to pump"""
    import re._parser as sp, re._constants as sc
    hits = []
    def sample(av):
        """a character matched by a set / literal"""
        neg = any(op is sc.NEGATE for op, _ in av)
        for cand in 'a0_x.[]{}!: ':
            ok = False
            for op, a in av:
                if op is sc.LITERAL and ord(cand) == a: ok = True
                elif op is sc.RANGE and a[0] <= ord(cand) <= a[1]: ok = True
                elif op is sc.CATEGORY:
                    if a is sc.CATEGORY_WORD and (cand.isalnum() or cand == '_'): ok = True
                    if a is sc.CATEGORY_NOT_WORD and not (cand.isalnum() or cand == '_'): ok = True
                    if a is sc.CATEGORY_DIGIT and cand.isdecimal(): ok = True
                    if a is sc.CATEGORY_NOT_DIGIT and not cand.isdecimal(): ok = True
            if ok != neg:
                return cand
        return 'a'
    def unbounded_inside(p):
        out = []
        for op, av in p:
            if op is sc.MAX_REPEAT or op is sc.MIN_REPEAT:
                lo, hi, body = av
                if hi is sc.MAXREPEAT:
                    chars = []
                    for o2, a2 in body:
                        if o2 is sc.IN: chars.append(sample(a2))
                        elif o2 is sc.LITERAL: chars.append(chr(a2))
                        elif o2 is sc.NOT_LITERAL: chars.append('a' if a2 != ord('a') else 'b')
                        elif o2 is sc.ANY: chars.append('a')
                    out.append((lo, chars))
                out += unbounded_inside(body)
            elif op is sc.BRANCH:
                for alt in av[1]:
                    out += unbounded_inside(alt)
            elif op is sc.SUBPATTERN:
                out += unbounded_inside(av[3])
        return out
    def walk(name, p):
        for op, av in p:
            if op is sc.MAX_REPEAT or op is sc.MIN_REPEAT:
                lo, hi, body = av
                if hi is sc.MAXREPEAT:
                    inner = unbounded_inside(body)
                    for ilo, chars in inner:
                        hits.append({'pattern': name, 'shape': f'repeat({lo},inf) over repeat({ilo},inf)', 'pump': chars})
                walk(name, body)
            elif op is sc.BRANCH:
                for alt in av[1]:
                    walk(name, alt)
            elif op is sc.SUBPATTERN:
                walk(name, av[3])
    for name, mod, attr in (('pybrace._field_re', M(), '_field_re'), ('pybrace._simple_field_re', M(), '_simple_field_re'),
                            ('pybrace._format_spec_re', M(), '_format_spec_re'), ('perlbrace._field_re', P(), '_field_re')):
        try:
            r = getattr(mod, attr)
            walk(name, sp.parse(r.pattern, r.flags))
        except Exception as exc:
            hits.append({'pattern': name, 'shape': f'unreadable: {type(exc).__name__}', 'pump': ['a']})
    return hits

def _timed(fn, s, seconds):
    """CPU time of fn(s) (own errors are fine), or None on timeout; the regex engine checks signals while matching"""
    t0 = time.process_time()
    try:
        with limit(seconds):
            try:
                fn(s)
            except Timeout:
                raise
            except Exception:
                pass
    except Timeout:
        return None
    return time.process_time() - t0

def timing_stream(chk, thorough=False):
    """n, 2n, 4n on pump strings: the time of FormatString must not grow faster than ~linearly.  TEST level."""
    limit = 2.0
    top = 1 << (18 if thorough else 16)
    results = []
    def run(parser, fn, name, prefix, pump, suffix):
        n, pts = 32, []
        while n <= top:
            s = prefix + pump * n + suffix
            best = None
            for _ in range(3):
                t = _timed(fn, s, limit)
                if t is None:
                    return {'parser': parser, 'template': name, 'n': n, 'len': len(s), 'verdict': 'timeout', 'seconds': f'>{limit}', 'input': s}
                best = t if best is None else min(best, t)
            pts.append((n, best))
            if best > 0.12:
                break
            n *= 2
        # judge the growth over a 16-fold span of sizes (a step in the engine's memory behaviour makes single doublings noisy):
        # linear time gives ~16, quadratic ~256
        big = [(n, t) for n, t in pts if t >= 1e-4]
        verdict, ratio = 'ok', None
        if len(big) >= 4:
            n2, t2 = big[-1]
            n0, t0 = next((n, t) for n, t in big if n * 16 >= n2)
            span = n2 // n0
            if span >= 8:
                ratio = (t2 / t0) * (16 / span)        # normalised to a 16-fold span (exact for linear growth)
                if t2 / t0 > 6.5 * span:
                    verdict = 'superlinear'
        res = {'parser': parser, 'template': name, 'verdict': verdict, 'ratio_16n_over_n': None if ratio is None else round(ratio, 2),
               'largest_n': pts[-1][0], 'seconds_at_largest': round(pts[-1][1], 5)}
        if verdict != 'ok':
            res['input'] = prefix + pump * pts[-1][0] + suffix
        return res
    m, p = M(), P()
    templates = [('pybrace', m.FormatString) + t for t in G.pump_templates()] + [('perlbrace', p.FormatString) + t for t in G.perl_pump_templates()]
    screen = regex_screen()
    seen = set()
    for h in screen:
        for c in h['pump']:
            for pre in ('{', '{:', '{a[', '{!', '{:{', '{:{a[', '{a.', '{0', ''):
                parser = 'perlbrace' if h['pattern'].startswith('perl') else 'pybrace'
                key = (parser, pre, c)
                if key in seen or (parser == 'perlbrace' and pre not in ('{', '')):
                    continue
                seen.add(key)
                templates.append((parser, p.FormatString if parser == 'perlbrace' else m.FormatString, f'screen:{pre}+{c!r}*n', pre, c, ''))
    bad = []
    for parser, fn, name, prefix, pump, suffix in templates:
        r = run(parser, fn, name, prefix, pump, suffix)
        if r['verdict'] != 'ok':
            # confirm once more before reporting (noise)
            r2 = run(parser, fn, name, prefix, pump, suffix)
            if r2['verdict'] != 'ok':
                bad.append(r2)
            r = r2
        results.append({k: v for k, v in r.items() if k != 'input'})
    chk.coverage['timing'] = {'templates': len(templates), 'screen_hits': [{k: v for k, v in h.items()} for h in screen][:20],
                              'worst_ratio_16n_over_n': max([r['ratio_16n_over_n'] or 0 for r in results] or [0]),
                              'not_ok': [{k: v for k, v in r.items() if k != 'input'} for r in bad], 'limit_ratio_16n_over_n': 104.0,
                              'results': results if thorough else results[:12]}
    chk.evaluations += len(templates)
    return bad
