"""C13: correspondence streams (`pybrace-*`, `perlbrace-*`), independent readings of the two syntaxes, the running interpreter's
`string.Formatter().parse` / `str.format` as oracle, the falsifier on the real code, the timing stream."""
import os, re, sys, time, string
sys.path.insert(0, os.path.join(os.path.dirname(os.path.abspath(__file__)), '..'))
import common
from gen import pybrace as G

common.setup_repo_import()

_M = {}
def _load(name):
    """lib.strformat.<name> of the repository under test; if it cannot be imported, a stand-in whose FormatString raises the
    import error (so that every input is a concrete crash rather than a harness failure)"""
    if name not in _M:
        try:
            mod = __import__('lib.strformat.' + name, fromlist=[name])
        except BaseException as exc:
            import types
            err = exc
            class Error(Exception):
                pass
            class Broken:
                def __init__(self, s):
                    raise RuntimeError(f'lib.strformat.{name} cannot be imported: {type(err).__name__}: {err}')
            mod = types.SimpleNamespace(FormatString=Broken, Error=Error, SSIZE_MAX=2 ** 31 - 1, Field=Broken, NestedField=Broken)
        _M[name] = mod
    return _M[name]

def M():
    return _load('pybrace')

def P():
    return _load('perlbrace')

def hexchars(s):
    return '.'.join('%x' % ord(c) for c in s) if s else '-'

def representable(s):
    """Lean's Char has no lone surrogates"""
    return not any(0xD800 <= ord(c) <= 0xDFFF for c in s)

# ------------------------------------------------------------------ the real code, canonically

def _types(t):
    return '+'.join(sorted(t))

def _key(k):
    return ('i%d' % k) if isinstance(k, int) else 's' + hexchars(k)

def impl_parse(s):
    """canonical one-liner of `pybrace.FormatString(s)`: same grammar as Driver/PyBrace.lean `showResult`"""
    m = M()
    try:
        fmt = m.FormatString(s)
    except Exception as exc:
        if isinstance(exc, m.Error):
            a = exc.args[0] if exc.args else None
            return f"err {type(exc).__name__} {hexchars(a) if isinstance(a, str) else 'OBJ'}"
        return 'err crash:' + type(exc).__name__
    try:
        its = ','.join(('L:' + hexchars(x)) if isinstance(x, str) else ('F:' + _types(x.types)) for x in fmt)
        mp = ';'.join(_key(k) + '=' + ','.join(('N:' if isinstance(a, m.NestedField) else 'F:') + _types(a.types) for a in args)
                      for k, args in fmt.argument_map.items())
        return f"ok items=[{its}] map=[{mp}]"
    except Exception as exc:
        return 'err attr:' + type(exc).__name__

def impl_parse_cfg(s, ssize, limit):
    """the same under a patched module global SSIZE_MAX and interpreter digit limit"""
    m = M()
    old_s, old_l = getattr(m, 'SSIZE_MAX', None), sys.get_int_max_str_digits()
    try:
        m.SSIZE_MAX = ssize
        sys.set_int_max_str_digits(limit)
        return impl_parse(s)
    finally:
        m.SSIZE_MAX = old_s
        sys.set_int_max_str_digits(old_l)

def impl_spec(spec):
    """canonical reading of `_format_spec_re.match(spec)` (Driver `showSpec`)"""
    m = M()
    try:
        fm = m._format_spec_re.match(spec)
        if fm is None:
            return 'nomatch'
        g = fm.group
        def o(x):
            return '~' if x is None else hexchars(x)
        def b(x):
            return 'true' if x else 'false'
        return (f"fill={o(g('fill'))} align={o(g('align'))} sign={o(g('sign'))} alt={b(g('alt'))} zero={b(g('zero'))} width={o(g('width'))} "
                f"comma={b(g('comma'))} precision={o(g('precision'))} type={o(g('type'))}")
    except Exception as exc:
        return 'err ' + type(exc).__name__

def impl_perl(s):
    p = P()
    try:
        fmt = p.FormatString(s)
    except Exception as exc:
        if isinstance(exc, p.Error):
            a = exc.args[0] if exc.args else None
            return f"err Error {hexchars(a) if isinstance(a, str) else 'OBJ'}"
        return 'err crash:' + type(exc).__name__
    try:
        its = []
        for x in fmt:
            its.append('F:' + hexchars(x[1:-1]) if x.startswith('{') else 'L:' + hexchars(x))
        return f"ok items=[{','.join(its)}] args=[{','.join(hexchars(a) for a in sorted(fmt.arguments))}]"
    except Exception as exc:
        return 'err attr:' + type(exc).__name__

# ------------------------------------------------------------------ input families

def corpus():
    d = os.path.join(common.VERIF, 'corpus', 'C13')
    out = {'py': [], 'perl': []}
    if os.path.isdir(d):
        for f in sorted(os.listdir(d)):
            with open(os.path.join(d, f), encoding='utf-8', newline='') as fh:
                text = fh.read()
            out['perl' if f.startswith('perl-') else 'py'].append(text)
    return out

def tables():
    """the interpreter's \\w and \\d range tables (recomputed here, independently of the translator)"""
    def ranges(pred):
        res, start = [], None
        for cp in range(0x110000):
            if pred(chr(cp)):
                if start is None:
                    start = cp
            elif start is not None:
                res.append((start, cp - 1)); start = None
        if start is not None:
            res.append((start, 0x10FFFF))
        return res
    w = re.compile(r'\w'); d = re.compile(r'\d')
    return ranges(lambda c: w.match(c) is not None), ranges(lambda c: d.match(c) is not None)

def py_inputs(chk, n_single, n_multi, n_bad, short_len):
    rng = chk.rng
    fam = {}
    fam['boundary'] = G.boundary_strings()
    fam['fixed'] = G.fixed_singles()
    cps = G.interesting_codepoints(tables())
    if not chk.thorough:
        low = [c for c in cps if c < 0x180]
        high = [c for c in cps if c >= 0x180]
        cps = low + rng.sample(high, min(len(high), 700))
    fam['context'] = G.context_strings(G.PY_SLOTS, cps)
    fam['short'] = G.short_strings(short_len, G.PY_ALPHABET) + G.short_strings(short_len + 2, G.PY_ALPHABET2)
    fam['single'] = G.singles(rng, n_single)
    multi = []
    for _ in range(n_multi):
        multi.append(G.gen_clash(rng) if rng.random() < 0.15 else G.gen_string(rng))
    fam['multi'] = multi
    bad = []
    for _ in range(n_bad):
        r = rng.random()
        if r < 0.3:
            bad.append(G.gen_garbage(rng))
        else:
            s = rng.choice(multi) if multi and r < 0.8 else rng.choice(fam['fixed'])
            s = G.mutate(rng, s)
            if rng.random() < 0.3:
                s = G.mutate(rng, s)
            bad.append(s)
    fam['malformed'] = bad
    return fam

def perl_inputs(chk, n_multi, n_bad, short_len):
    rng = chk.rng
    fam = {}
    cps = G.interesting_codepoints(tables())
    if not chk.thorough:
        low = [c for c in cps if c < 0x180]
        high = [c for c in cps if c >= 0x180]
        cps = low + rng.sample(high, min(len(high), 1200))
    fam['context'] = G.context_strings(G.PERL_SLOTS, cps)
    fam['short'] = G.short_strings(short_len, G.PERL_ALPHABET, need='')
    multi = [G.gen_perl(rng) for _ in range(n_multi)]
    fam['multi'] = multi
    bad = []
    for _ in range(n_bad):
        r = rng.random()
        if r < 0.3:
            bad.append(G.gen_garbage(rng, G.PERL_GARBAGE))
        else:
            s = G.mutate(rng, rng.choice(multi), G.PERL_GARBAGE)
            bad.append(s)
    fam['malformed'] = bad
    return fam

# ------------------------------------------------------------------ correspondence streams

def run_parse_stream(chk, fam, prefix='pybrace', impl=impl_parse):
    res = {}
    for name, strings in fam.items():
        strings = [s for s in strings if representable(s)]
        if not strings:
            continue
        lines = [f'{prefix} parse ' + hexchars(s) for s in strings]
        outs = [impl(s) for s in strings]
        dis, _model = chk.stream(f'{prefix}-' + name, lines, outs)
        res[name] = [strings[i] for i in dis]
        chk.note_cases({(prefix, s) for s, o in zip(strings, outs) if o.startswith('ok ') and ('F:' in o)})
    return res

def run_cfg_stream(chk, strings):
    """the overflow / digit-limit branches: the model under other constants against the code with the module global and the
    interpreter setting patched"""
    lines, outs, used = [], [], []
    for s in strings:
        if not representable(s):
            continue
        for ssize, limit in ((3, 0), (0, 0), (2 ** 31 - 1, 4300), (5, 640)):
            lines.append(f'pybrace parse-cfg {ssize} {limit} ' + hexchars(s))
            outs.append(impl_parse_cfg(s, ssize, limit))
            used.append(s)
    dis, _ = chk.stream('pybrace-cfg', lines, outs)
    return [used[i] for i in dis]

def run_spec_stream(chk, specs):
    specs = [s for s in specs if representable(s)]
    lines = ['pybrace spec ' + hexchars(s) for s in specs]
    outs = [impl_spec(s) for s in specs]
    dis, _ = chk.stream('pybrace-spec', lines, outs)
    return ['{:' + specs[i] + '}' for i in dis]

# ------------------------------------------------------------------ the oracle: the running interpreter

_MARKUP_MSG = [
    ("Single '}' encountered", 'singleClose'), ("Single '{' encountered", 'singleOpen'), ("unexpected '{' in field name", 'openInName'),
    ("expected '}' before end of string", 'expectedClose'), ('end of string while looking for conversion', 'endInConversion'),
    ("expected ':' after conversion specifier", 'expectedColon'), ("unmatched '{' in format spec", 'unmatchedOpen'),
]

def _markup_kind(msg):
    for pre, kind in _MARKUP_MSG:
        if msg.startswith(pre):
            return kind
    return None

_FORMATTER = string.Formatter()

def oracle_parse(s):
    """`list(string.Formatter().parse(s))`, canonically (Driver `showMarkup`)"""
    try:
        chunks = list(_FORMATTER.parse(s))
    except ValueError as exc:
        return 'err ' + (_markup_kind(str(exc)) or 'ValueError:' + str(exc)[:40])
    except Exception as exc:
        return 'err ' + type(exc).__name__
    out = []
    for lit, name, spec, conv in chunks:
        if name is None:
            out.append('L:' + hexchars(lit))
        else:
            out.append(f"L:{hexchars(lit)}|N:{hexchars(name)}|S:{hexchars(spec)}|C:{'~' if conv is None else hexchars(conv)}")
    return 'ok ' + ';'.join(out)

def oracle_parses(s):
    try:
        for _ in _FORMATTER.parse(s):
            pass
        return True
    except ValueError:
        return False

_SPEC_MSG = [
    ('Too many decimal digits', 'tooManyDigits'), ("Cannot specify both ',' and '_'", 'commaAndUnderscore'), ('Format specifier missing precision', 'missingPrecision'),
    ('Invalid format specifier', 'invalidSpecifier'), ("Cannot specify ','", 'thousandsWithType'), ("Cannot specify '_'", 'thousandsWithType'),
    ('Precision not allowed in integer', 'precisionInt'), ('Negative zero coercion (z) not allowed in integer', 'negZeroInt'),
    ("Sign not allowed with integer format specifier 'c'", 'signWithC'), ("Alternate form (#) not allowed with integer format specifier 'c'", 'altWithC'),
    ('Unknown format code', 'unknownCode'), ('precision too big', 'precisionTooBig'), ('Sign not allowed in string', 'signStr'),
    ('Space not allowed in string', 'spaceStr'), ('Negative zero coercion (z) not allowed in string', 'negZeroStr'),
    ('Alternate form (#) not allowed in string', 'altStr'), ("'=' alignment not allowed in string", 'eqAlignStr'),
]

def classify_format(exc):
    n, msg = type(exc).__name__, str(exc)
    if n == 'ValueError':
        k = _markup_kind(msg)
        if k:
            return 'markup:' + k
        if msg.startswith('cannot switch from manual'): return 'manualToAuto'
        if msg.startswith('cannot switch from automatic'): return 'autoToManual'
        if msg.startswith('Unknown conversion specifier'): return 'unknownConversion'
        if msg.startswith('Too many decimal digits'): return 'tooManyDigits?'      # field index or specification: resolved by the caller
        for pre, kind in _SPEC_MSG:
            if msg.startswith(pre):
                return 'spec:' + kind
        return 'ValueError:' + msg[:40]
    if n == 'IndexError': return 'indexError'
    if n == 'KeyError': return 'keyError'
    if n == 'OverflowError':
        if 'not in range(0x110000)' in msg or 'too large to convert to C long' in msg: return 'spec:chrRange'
        if 'too large to convert to float' in msg: return 'spec:intTooLarge'
    return n + ':' + msg[:40]

def oracle_format(s, pos, kw):
    try:
        s.format(*pos, **kw)
    except Exception as exc:
        return 'err ' + classify_format(exc)
    return 'ok'

def val_token(v):
    if type(v) is int: return 'i%d' % v
    if type(v) is float: return 'f'
    return 's'

def args_token(pos, kw):
    return 'P:' + ','.join(val_token(v) for v in pos) + '|K:' + ';'.join(hexchars(k) + '=' + val_token(v) for k, v in kw.items())

# --- an independent reading of a format string, from the library reference ("Format String Syntax"): used to choose arguments,
#     to decide flatness and to keep the oracle from allocating

def ref_fields(s):
    """[(field_name, conversion, format_spec)] by brace counting (no regex); None if the braces do not pair up"""
    out, i, n = [], 0, len(s)
    while i < n:
        c = s[i]
        if c == '{':
            if i + 1 < n and s[i + 1] == '{':
                i += 2; continue
            j, depth, inbr, name_done = i + 1, 1, False, False
            start = j
            # the field name ends at the first ! or : outside brackets
            while j < n:
                d = s[j]
                if not name_done:
                    if inbr:
                        if d == ']': inbr = False
                    elif d == '[': inbr = True
                    elif d == '{': return None
                    elif d == '}': break
                    elif d in '!:': name_done = True; name_end = j; continue
                else:
                    break
                j += 1
            if j >= n:
                return None
            if not name_done:
                out.append((s[start:j], None, '')); i = j + 1; continue
            name = s[start:name_end]
            j = name_end
            conv = None
            if s[j] == '!':
                if j + 1 >= n: return None
                conv = s[j + 1]; j += 2
                if j >= n: return None
                if s[j] == '}':
                    out.append((name, conv, '')); i = j + 1; continue
                if s[j] != ':': return None
            j += 1
            spec_start, depth = j, 1
            while j < n:
                if s[j] == '{': depth += 1
                elif s[j] == '}':
                    depth -= 1
                    if depth == 0: break
                j += 1
            if j >= n:
                return None
            out.append((name, conv, s[spec_start:j])); i = j + 1
        elif c == '}':
            if i + 1 < n and s[i + 1] == '}':
                i += 2; continue
            return None
        else:
            i += 1
    return out

def ref_flat(s):
    """no attribute/index part in any field name, no replacement field inside a format specification"""
    fs = ref_fields(s)
    return fs is not None and all('.' not in nm and '[' not in nm and '{' not in sp for nm, cv, sp in fs)

CAP = 10 ** 4
_NUM = re.compile(r'[0-9]+')      # ASCII runs; other decimal digits are handled through int()

def oracle_safe(s):
    """may `s.format(…)` be evaluated without allocating much?  every decimal run (any script) that could be a width or a precision
    must be small or overflow CPython's parser (> 2^63-1)"""
    run = ''
    for c in s + ' ':
        if c.isdecimal():
            run += c
        else:
            if run and len(run) < 4000:
                v = int(run)
                if CAP < v <= 2 ** 63 - 1:
                    return False
            run = ''
    return True

VALS = {'int': (65, 0, 1114111, -3, 2 ** 70), 'float': (1.5, -0.0, 1e300, float('inf')), 'str': ('a', '', 'é' * 3)}
ODD_INTS = (-1, 1114112, 2 ** 1024 - 2 ** 970, 2 ** 1024 - 2 ** 970 - 1, -(2 ** 1024))

def gen_args(rng, s):
    """(pos, kw) that mostly fit the string (by the independent reading), then perturbed"""
    fs = ref_fields(s) or []
    npos, names = 0, []
    auto = 0
    for nm, cv, sp in fs:
        first = re.split(r'[.\[]', nm, maxsplit=1)[0]
        if first == '':
            auto += 1
        elif first.isdecimal():
            try:
                npos = max(npos, int(first) + 1)
            except ValueError:
                pass
        else:
            names.append(first)
    npos = min(max(npos, auto), 40)
    def val():
        r = rng.random()
        if r < 0.4: return rng.choice(VALS['int'])
        if r < 0.46: return rng.choice(ODD_INTS)
        if r < 0.73: return rng.choice(VALS['float'])
        return rng.choice(VALS['str'])
    pos = [val() for _ in range(npos)]
    kw = {k: val() for k in names}
    r = rng.random()
    if r < 0.06 and pos:
        pos.pop()
    elif r < 0.1:
        pos.append(val())
    elif r < 0.14 and kw:
        kw.pop(rng.choice(sorted(kw)))
    elif r < 0.17:
        kw['extra'] = 1
    return pos, kw

def run_cpyparse_stream(chk, strings):
    strings = [s for s in strings if representable(s)]
    lines = ['pybrace cpy-parse ' + hexchars(s) for s in strings]
    outs = [oracle_parse(s) for s in strings]
    dis, _ = chk.stream('pybrace-cpyparse', lines, outs)
    return [strings[i] for i in dis]

def run_cpyformat_stream(chk, strings, per_string=2):
    """`Spec.StrFormat.format` against the running interpreter's `str.format` on (format, arguments) pairs; the reference
    answers `outside` for compound / nested fields: those pairs are counted and left out"""
    rng = chk.rng
    lines, outs, pairs = [], [], []
    skipped = 0
    for s in strings:
        if not representable(s):
            continue
        if not oracle_safe(s):
            skipped += 1
            continue
        for _ in range(per_string):
            pos, kw = gen_args(rng, s)
            if not all(representable(k) and k.isidentifier() or True for k in kw):
                continue
            lines.append('pybrace cpy-format ' + hexchars(s) + ' ' + args_token(pos, kw))
            outs.append(oracle_format(s, pos, kw))
            pairs.append((s, pos, kw))
    model = common.run_driver(lines)
    st = chk.coverage['streams'].setdefault('pybrace-cpyformat', {'cases': 0, 'disagreements': 0, 'outcomes': {}, 'outside_reference': 0, 'skipped_for_allocation': 0})
    st['skipped_for_allocation'] += skipped
    dis = []
    for i, (a, b) in enumerate(zip(outs, model)):
        if b == 'err outside':
            st['outside_reference'] += 1
            continue
        if a == 'err tooManyDigits?':
            a = b if b in ('err tooManyDigits', 'err spec:tooManyDigits') else a
        st['cases'] += 1
        key = a
        st['outcomes'][key] = st['outcomes'].get(key, 0) + 1
        if a != b:
            dis.append(i)
    st['disagreements'] += len(dis)
    chk.evaluations += len(lines)
    for i in dis[:5]:
        chk.broken.append({'kind': 'correspondence', 'stream': 'pybrace-cpyformat', 'line': lines[i], 'impl': outs[i], 'model': model[i],
                           'format': pairs[i][0], 'args': repr(pairs[i][1:])[:200]})
    return [pairs[i] for i in dis]
