"""C15: the real header checks canonically (`parse_header`, `check_comments`, `check_headers`, `check_mime`, `check_dates`,
`check_project`, `check_translator` on synthetic `ctx` namespaces with a capturing `tag()`; `Checker.check()` on files), the
library results the model takes as inputs (computed here by calling the libraries directly), the protocol lines for the Lean
driver (`hdr …`), an INDEPENDENT reference of the Appendix-A rule set written from data/tags, and the falsifier."""
import collections, datetime, difflib, email.utils, os, re, struct, sys, types, urllib.parse
sys.path.insert(0, os.path.join(os.path.dirname(os.path.abspath(__file__)), '..'))
import common
from gen import hdr as G

common.setup_repo_import()

NOW = datetime.datetime(2026, 1, 1, 0, 0, tzinfo=datetime.timezone.utc)
NOW_US = int((NOW - datetime.datetime(1970, 1, 1, tzinfo=datetime.timezone.utc)) // datetime.timedelta(microseconds=1))

def hexs(s):
    return '.'.join('%x' % ord(c) for c in s) if s else '-'

def hexo(s):
    return '~' if s is None else hexs(s)

def hlist(xs, sep=','):
    return sep.join(hexs(x) for x in xs) if xs else '_'

def htable(pairs):
    """`k=v,…` with hex keys; values already in wire form"""
    pairs = list(pairs)
    return ','.join(f'{hexs(k)}={v}' for k, v in pairs) if pairs else '_'

# ------------------------------------------------------------------ the real modules

_M = None
def M():
    """(gettext, domains, check, encodings, misc, tags) of the tree under test; a module that cannot be imported becomes a
    stand-in whose every attribute raises"""
    global _M
    if _M is None:
        import checker_harness as H
        class Broken:
            def __init__(self, err):
                self._err = err
            def __getattr__(self, name):
                err = self._err
                def raiser(*a, **k):
                    raise RuntimeError(f'module cannot be imported: {type(err).__name__}: {err}')
                return raiser
        res = []
        for name in ('gettext', 'domains', 'check', 'encodings', 'misc', 'tags'):
            try:
                res.append(__import__('lib.' + name, fromlist=['x']))
            except BaseException as exc:
                res.append(Broken(exc))
        try:
            H.ready()
        except BaseException:
            pass
        _M = tuple(res)
    return _M

def canon_extra(x):
    tags = M()[5]
    try:
        if isinstance(x, tags.safestr):
            return 'S:' + hexs(str(x))
    except Exception:
        pass
    if isinstance(x, bool):
        return 'i:%d' % int(x)
    if isinstance(x, int):
        return 'i:%d' % x
    if isinstance(x, bytes):
        return 'b:' + x.hex()
    if isinstance(x, str):
        return 's:' + hexs(x)
    return 's:' + hexs(str(x))

def canon_calls(calls):
    return ';'.join(name + '(' + ','.join(canon_extra(x) for x in extra) + ')' for name, extra in calls) or '-'

def make_checker(path='/nonexistent/x.po'):
    import checker_harness as H
    return H.make_checker(path)

# ------------------------------------------------------------------ leaf functions of the real code

def impl_parse(s):
    g = M()[0]
    try:
        out = []
        for line in g.parse_header(s):
            if isinstance(line, dict):
                [(k, v)] = line.items()
                out.append('F' + hexs(k) + ':' + hexs(v))
            else:
                out.append('S' + hexs(line))
        return 'ok ' + (';'.join(out) or '-')
    except Exception as exc:
        return 'err ' + type(exc).__name__

def impl_splitlines(s):
    ls = s.splitlines()
    return 'ok ' + (','.join(hexs(l) for l in ls) if ls else '_')

def impl_special(d):
    """`domains._is_special` on an already lower-cased domain"""
    dm = M()[1]
    try:
        return 'ok 1' if dm._is_special(d) else 'ok 0'
    except Exception as exc:
        return 'err ' + type(exc).__name__

def impl_email(addr):
    dm = M()[1]
    try:
        _, domain = addr.rsplit('@', 1)
        return f'ok {hexs(domain)} {1 if dm.is_email_in_special_domain(addr) else 0} {1 if dm.is_email_in_dotless_domain(addr) else 0}'
    except Exception as exc:
        return 'err ' + type(exc).__name__

_CT = None
def content_type_regex():
    """the regex text `check_mime` hands to `re.search` (taken from the method's ast, as the translator does)"""
    global _CT
    if _CT is None:
        import ast, inspect, textwrap
        k = M()[2]
        try:
            node = ast.parse(textwrap.dedent(inspect.getsource(k.Checker.check_mime)))
            pats = [n.args[0].value for n in ast.walk(node) if isinstance(n, ast.Call) and isinstance(n.func, ast.Attribute) and n.func.attr == 'search'
                    and isinstance(n.func.value, ast.Name) and n.func.value.id == 're' and n.args and isinstance(n.args[0], ast.Constant)]
            _CT = re.compile(pats[0])
        except Exception:
            _CT = re.compile(r'(\Atext/plain; )?\bcharset=([^\s;]+)\Z')
    return _CT

def impl_ctype(ct):
    m = content_type_regex().search(ct)
    if m is None:
        return 'ok ~'
    try:
        return f'ok {0 if m.group(1) is None else 1} {hexs(m.group(2))}'
    except Exception as exc:
        return 'err ' + type(exc).__name__

def impl_unusual(s):
    k, e = M()[2], M()[3]
    try:
        cs = sorted(set(k.find_unusual_characters(s)))
    except Exception as exc:
        return 'err ' + type(exc).__name__
    try:
        text = ', '.join(f'U+{ord(ch):04X} {e.get_character_name(ch)}' for ch in cs)
        return f'ok {hexs("".join(cs))} {hexs(text)}'
    except Exception:
        return f'ok {hexs("".join(cs))} !'

# ------------------------------------------------------------------ the check_* methods on synthetic contexts

class FakeFile(list):
    """what `check_headers` touches of a polib file: a list of entries with `metadata`, `metadata_is_fuzzy`, `header`"""
    def __init__(self, entries, header=''):
        super().__init__(entries)
        self.metadata = {}
        self.metadata_is_fuzzy = False
        self.header = header
        self.header_entry = None

def real_entry(e):
    return types.SimpleNamespace(
        msgid=e['msgid'], msgctxt=e['msgctxt'], obsolete=e['obsolete'], occurrences=list(e['occurrences']), msgid_plural=e['plural'],
        msgstr=e['msgstr'], msgstr_plural=({} if e['msgstr0'] is None else {0: e['msgstr0']}), flags=list(e['flags']),
        previous_msgctxt=None, previous_msgid=None, previous_msgid_plural=None, comment='', tcomment='')

def meta_of_lines(lines):
    """`ctx.metadata` as `check_headers` would leave it for these (key, value) field lines"""
    md = collections.defaultdict(list)
    for k, v in lines:
        md[k] += [v]
    return md

def show_meta(md):
    items = [(k, v) for k, v in md.items() if v]
    return ';'.join(hexs(k) + '=' + ','.join(hexs(x) for x in v) for k, v in items) or '_'

def impl_comments(tmpl, text):
    try:
        chk, calls = make_checker()
        ctx = types.SimpleNamespace(file=FakeFile([], header=text), is_template=bool(tmpl), is_binary=False)
        chk.check_comments(ctx)
        return 'ok ' + canon_calls(calls)
    except Exception as exc:
        return 'err ' + type(exc).__name__

def impl_headers(tmpl, entries):
    try:
        chk, calls = make_checker()
        ctx = types.SimpleNamespace(file=FakeFile([real_entry(e) for e in entries]), is_template=bool(tmpl), is_binary=False)
        chk.check_headers(ctx)
        return f'ok {canon_calls(calls)} meta={show_meta(ctx.metadata)}'
    except Exception as exc:
        return 'err crash'

def parse_lang(s):
    if s is None:
        return None
    import charset_common as CC
    return CC.parse_lang(s)

def impl_mime(tmpl, lines, lang_str):
    try:
        chk, calls = make_checker()
        ctx = types.SimpleNamespace(metadata=meta_of_lines(lines), is_template=bool(tmpl), is_binary=False, language=parse_lang(lang_str), encoding='unset')
        chk.check_mime(ctx)
        return f'ok {canon_calls(calls)} enc={hexo(ctx.encoding)}'
    except Exception as exc:
        return 'err crash'

def impl_project(lines):
    try:
        chk, calls = make_checker()
        ctx = types.SimpleNamespace(metadata=meta_of_lines(lines), is_template=False, is_binary=False)
        chk.check_project(ctx)
        return 'ok ' + canon_calls(calls)
    except Exception as exc:
        return 'err ' + type(exc).__name__

def impl_translator(tmpl, lines):
    try:
        chk, calls = make_checker()
        ctx = types.SimpleNamespace(metadata=meta_of_lines(lines), is_template=bool(tmpl), is_binary=False)
        chk.check_translator(ctx)
        return 'ok ' + canon_calls(calls)
    except Exception as exc:
        return 'err ' + type(exc).__name__

def real_all(case):
    """the header stages of `Checker.check` in source order on a synthetic ctx (check_language replaced by setting
    ctx.language; check_plurals and check_messages not run): ('ok', calls) or ('err', exception name)"""
    misc = M()[4]
    saved = getattr(misc, 'utc_now', None)
    calls = []
    try:
        chk, calls = make_checker()
        kind = case['kind']
        ctx = types.SimpleNamespace(file=FakeFile([real_entry(e) for e in case['entries']], header=case['comments']),
                                    is_template=(kind == 'pot'), is_binary=(kind == 'mo'))
        misc.utc_now = lambda: NOW
        chk.check_comments(ctx)
        chk.check_headers(ctx)
        ctx.language = parse_lang(case['language'])
        chk.check_mime(ctx)
        chk.check_dates(ctx)
        chk.check_project(ctx)
        chk.check_translator(ctx)
        return ('ok', calls)
    except Exception as exc:
        return ('err', type(exc).__name__, calls)
    finally:
        misc.utc_now = saved

def impl_all(case):
    r = real_all(case)
    return 'ok ' + canon_calls(r[1]) if r[0] == 'ok' else 'err crash'

# ------------------------------------------------------------------ library results (inputs of the model), computed directly

def ref_parse_header(s):
    """own splitter (the field grammar of the property): [('F', key, value) | ('S', line)]"""
    lines = s.split('\n')
    if lines and lines[-1] == '':
        lines.pop()
    out = []
    for line in lines:
        i = line.find(':')
        key = line[:i] if i >= 0 else None
        if key and all(0x21 <= ord(c) <= 0x7E and c != ':' for c in key):
            out.append(('F', key, line[i + 1:].strip(' \t')))
        else:
            out.append(('S', line))
    return out

def header_entries(entries):
    return [(i, e) for i, e in enumerate(entries) if e['msgid'] == '' and e['msgctxt'] is None and not e['obsolete']]

def header_text_of(e):
    t = e['msgstr0'] if e['msgstr0'] is not None else e['msgstr']
    return t or ''

def fields_of_case(entries):
    hs = header_entries(entries)
    if not hs:
        return []
    return [(x[1], x[2]) for x in ref_parse_header(header_text_of(hs[0][1])) if x[0] == 'F']

def parseaddr(v):
    """the address part `email.utils.parseaddr` finds; '' when the library cannot parse the value at all (its recursive
    parser gives up with RecursionError on some 500 nested comments) - the contract of `parse_address` in lib/check (fix 875595a)"""
    try:
        return email.utils.parseaddr(v)[1]
    except RecursionError:
        return ''

def url_scheme(v):
    try:
        return urllib.parse.urlparse(v).scheme
    except ValueError:
        return None

_FIELDS = None
def registered_fields():
    """data/header-fields, read directly"""
    global _FIELDS
    if _FIELDS is None:
        path = os.path.join(common.REPO, 'data', 'header-fields')
        try:
            with open(path, encoding='ascii') as f:
                _FIELDS = frozenset(l.strip() for l in f if l.strip() and not l.startswith('#'))
        except OSError:
            _FIELDS = frozenset()
    return _FIELDS

def close_fuzzy(flag):
    return bool(difflib.get_close_matches(flag.lower(), ['fuzzy'], cutoff=0.8))

def close_field(key):
    r = difflib.get_close_matches(key, registered_fields(), n=1, cutoff=0.8)
    return r[0] if r else None

def addr_values(lines):
    return [v for k, v in lines if k in ('Report-Msgid-Bugs-To', 'Last-Translator', 'Language-Team')]

def addr_table(lines):
    seen = {}
    for v in addr_values(lines):
        seen.setdefault(v, parseaddr(v))
    return seen

def scheme_table(lines):
    seen = {}
    for k, v in lines:
        if k == 'Report-Msgid-Bugs-To':
            s = url_scheme(v)
            seen.setdefault(v, '~' if s is None else hexs(s))
    return seen

def lower_table(addrs):
    """`str.lower` of the domains the model may ask about (ASCII ones are lower-cased by the driver itself)"""
    t = {}
    for a in addrs:
        if '@' in a:
            d = a.rsplit('@', 1)[1]
            if not d.isascii():
                t[d] = d.lower()
    return t

_ENC_CACHE = {}
def enc_entry(name, chars_key, chars):
    """`<enc>=<dec>/<codec|~>/<joined>:<per>`: how the encoding decodes the ASCII repertoire, its codec name, and whether it can
    encode the language's characters (asked of Python's codecs directly, as C20's harness does)"""
    import charset_common as CC
    key = (name, chars_key)
    if key not in _ENC_CACHE:
        d = CC.dec_outcome(name)[0]
        codec = CC.lookup_name(name)
        if chars is None:
            j, per = 'o', ''
        else:
            j = CC.enc_outcome(''.join(chars), name)
            per = ''.join(CC.enc_outcome(c, name) for c in chars)
        _ENC_CACHE[key] = f'{hexs(name)}={d}/{"~" if codec is None else hexs(codec)}/{j}:{per}'
    return _ENC_CACHE[key]

_CHARS = {}
def language_chars(lang_str):
    """`~` / `^` / list for the driver, and the list itself"""
    import charset_common as CC
    if lang_str is None:
        return '~', None
    if lang_str not in _CHARS:
        if CC.parse_lang(lang_str) is None:
            _CHARS[lang_str] = ('~', None)
        else:
            chars = CC.reference_characters(lang_str)
            _CHARS[lang_str] = ('^', None) if chars is None else ((','.join(hexs(c) for c in chars) if chars else '-'), chars)
    return _CHARS[lang_str]

def charset_names(cts):
    """every encoding name `check_mime` could look at in these Content-Type values (with the names it may propose instead)"""
    E = M()[3]
    names = []
    for ct in cts:
        for m in re.finditer(r'charset=', ct):
            rest = ct[m.end():]
            enc = re.match(r'[^\s;]*', rest).group(0)
            for cand in (enc, rest):
                if cand and cand not in names and '\x00' not in cand:
                    names.append(cand)
    out = list(names)
    for n in names:
        try:
            p = E.propose_portable_encoding(n)
        except Exception:
            p = None
        if isinstance(p, str) and p not in out:
            out.append(p)
    return out

def charset_args(lines, lang_str):
    cs, chars = language_chars(lang_str)
    cts = [v for k, v in lines if k == 'Content-Type']
    names = charset_names(cts)
    encs = ';'.join(enc_entry(n, lang_str if chars is not None else None, chars) for n in names) or '_'
    return cs, encs

# ------------------------------------------------------------------ protocol lines

def entries_arg(entries):
    def one(e):
        occ = ','.join(hexs(p) + ':' + hexs(l) for p, l in e['occurrences']) or '_'
        return '/'.join([hexs(e['msgid']), hexo(e['msgctxt']), '1' if e['obsolete'] else '0', occ, hexo(e['plural']),
                         hexs(e['msgstr'] or ''), hexo(e['msgstr0']), hlist(e['flags'])])
    return '|'.join(one(e) for e in entries) or '_'

def lines_arg(lines):
    return ';'.join(hexs(k) + ':' + hexs(v) for k, v in lines) or '_'

def fuzzy_arg(entries):
    flags = []
    for e in entries:
        for f in e['flags']:
            if f not in flags and close_fuzzy(f):
                flags.append(f)
    return hlist(flags)

def field_arg(entries):
    t = {}
    for e in entries:
        for x in ref_parse_header(header_text_of(e)):
            if x[0] == 'F' and x[1] not in t:
                c = close_field(x[1])
                if c is not None:
                    t[x[1]] = hexs(c)
    return htable(t.items())

def headers_line(tmpl, entries):
    return f'hdr headers {int(tmpl)} {entries_arg(entries)} {fuzzy_arg(entries)} {field_arg(entries)}'

def mime_line(tmpl, lines, lang_str):
    cs, encs = charset_args(lines, lang_str)
    return f'hdr mime {int(tmpl)} {lines_arg(lines)} {cs} {encs}'

def tables_for(lines):
    at = addr_table(lines)
    return (htable((k, hexs(v)) for k, v in at.items()), htable(scheme_table(lines).items()),
            htable((k, hexs(v)) for k, v in lower_table(at.values()).items()))

def project_line(lines):
    a, s, l = tables_for(lines)
    return f'hdr project {lines_arg(lines)} {a} {s} {l}'

def translator_line(tmpl, lines):
    a, _s, l = tables_for(lines)
    return f'hdr translator {int(tmpl)} {lines_arg(lines)} {a} {l}'

def all_line(case):
    kind = case['kind']
    es = case['entries']
    lines = fields_of_case(es)
    a, s, l = tables_for(lines)
    cs, encs = charset_args(lines, case['language'])
    return (f'hdr all {int(kind == "pot")} {int(kind == "mo")} {hexs(case["comments"])} {entries_arg(es)} {NOW_US} '
            f'{fuzzy_arg(es)} {field_arg(es)} {a} {s} {l} {cs} {encs}')

# ------------------------------------------------------------------ the reference: Appendix A, from data/tags and the statement

DEDICATED = {'Content-Transfer-Encoding', 'Content-Type', 'Language', 'Language-Team', 'Last-Translator', 'MIME-Version', 'PO-Revision-Date',
             'POT-Creation-Date', 'Plural-Forms', 'Project-Id-Version', 'Report-Msgid-Bugs-To', 'X-Poedit-Country', 'X-Poedit-Language'}

SPECIAL_USE = [('in-addr.arpa', False), ('ip6.arpa', False), ('test', True), ('localhost', True), ('invalid', True), ('example', True),
               ('example.com', True), ('example.net', True), ('example.org', True), ('local', False)]

def ref_special_domain(domain):
    d = domain.lower()
    for suffix, bare in SPECIAL_USE:
        if bare and d == suffix:
            return True
        if d.endswith('.' + suffix):
            labels = d[:-len(suffix) - 1]
            if labels and '\n' not in labels:
                return True
    return False

def ref_addr_verdict(addr, boiler):
    """'reserved' | 'boilerplate' | 'dotless' | 'fine' for an address containing @ (documented order of precedence)"""
    domain = addr[addr.rindex('@') + 1:]
    if ref_special_domain(domain):
        return 'reserved'
    if addr in boiler:
        return 'boilerplate'
    if '.' not in domain:
        return 'dotless'
    return 'fine'

UNUSUAL_RE = None
def ref_unusual(text):
    """the unusual-character class of the documentation: C0 except TAB LF ESC, ESC not starting a CSI, DEL, C1, BOM, U+FFFD,
    the two BMP non-characters, and an inverted question mark directly after a letter"""
    out = set()
    for i, ch in enumerate(text):
        o = ord(ch)
        if o <= 0x08 or 0x0B <= o <= 0x1A or 0x1C <= o <= 0x1F or o == 0x7F or 0x80 <= o <= 0x9F or o in (0xFEFF, 0xFFFD, 0xFFFE, 0xFFFF):
            out.add(ch)
        elif o == 0x1B and text[i + 1:i + 2] != '[':
            out.add(ch)
        elif o == 0xBF and i > 0 and re.fullmatch(r'\w', text[i - 1]):
            out.add(ch)
    return sorted(out)

COMMENT_ALWAYS = [r'\bPACKAGE package\b', r'\bCopyright \S+ YEAR\b', r"\bTHE PACKAGE'S COPYRIGHT HOLDER\b"]
COMMENT_TRANSLATED = [r'\bFIRST AUTHOR\b', r'<EMAIL@ADDRESS>', r'(?<=>), YEAR\b']

def ref_charset_tags(ct, enc, template, language):
    """the charset verdicts (C20's classification asked of lib.encodings directly): (tags, kept encoding)"""
    E = M()[3]
    out = []
    try:
        compatible = E.is_ascii_compatible_encoding(enc, missing_ok=False)
    except E.EncodingLookupError:
        if enc == 'CHARSET':
            if not template:
                out.append(('boilerplate-in-content-type', ('s:' + hexs(ct),)))
        else:
            out.append(('unknown-encoding', ('s:' + hexs(enc),)))
        return out, None
    kept = enc
    if not compatible:
        out.append(('non-ascii-compatible-encoding', ('s:' + hexs(enc),)))
    elif not E.is_portable_encoding(enc):
        new = E.propose_portable_encoding(enc)
        if new is not None:
            out.append(('non-portable-encoding', ('s:' + hexs(enc), 's:' + hexs('=>'), 's:' + hexs(new))))
            kept = new
        else:
            out.append(('non-portable-encoding', ('s:' + hexs(enc),)))
    if language is not None:
        un = language.get_unrepresentable_characters(kept)
        if un:
            if len(un) > 5:
                un = un[:4] + ['...']
            out.append(('unrepresentable-characters', tuple(['s:' + hexs(kept)] + ['s:' + hexs(c) for c in un])))
    return out, kept

def ref_tags(case):
    """Counter of (tag, extras) the rule set prescribes for a case; None if the reference cannot decide (library error)"""
    import date_common as D
    out = collections.Counter()
    def emit(name, *extras):
        out[(name, tuple(extras))] += 1
    s = lambda v: 's:' + hexs(v)
    S = lambda v: 'S:' + hexs(v)
    kind = case['kind']
    template, binary = kind == 'pot', kind == 'mo'
    # initial comments
    pats = COMMENT_ALWAYS + ([] if template else COMMENT_TRANSLATED)
    for line in case['comments'].splitlines():
        if any(re.search(p, line) for p in pats):
            emit('boilerplate-in-initial-comments', s(line))
    # header entry
    hs = header_entries(case['entries'])
    lines = []
    if len(hs) >= 2:
        emit('duplicate-header-entry')
    if hs:
        i, e = hs[0]
        text = header_text_of(e)
        if i != 0:
            emit('distant-header-entry')
        if e['occurrences']:
            emit('empty-msgid-message-with-source-code-references', *[s(p + ':' + l) for p, l in e['occurrences']])
        if e['plural'] is not None:
            emit('empty-msgid-message-with-plural-forms')
        flags = collections.Counter(e['flags'])
        for fl, n in flags.items():
            if fl == 'fuzzy':
                if not template:
                    emit('fuzzy-header-entry')
            elif close_fuzzy(fl):
                emit('unexpected-flag-for-header-entry', s(fl), s('=>'), s('fuzzy'))
            else:
                emit('unexpected-flag-for-header-entry', s(fl))
            if n > 1:
                emit('duplicate-flag-for-header-entry', s(fl))
        un = ref_unusual(text)
        if un:
            import unicodedata
            E = M()[3]
            try:
                emit('unusual-character-in-header-entry', S(', '.join(f'U+{ord(c):04X} {E.get_character_name(c)}' for c in un)))
            except Exception:
                return None
        lines = ref_parse_header(text)
    # stray lines
    seen_marker = False
    for x in lines:
        if x[0] != 'S':
            continue
        l = x[1]
        if l.startswith('#-#-#-#-#  ') and l.endswith('  #-#-#-#-#') and len(l) >= 23:
            if not seen_marker:
                emit('conflict-marker-in-header-entry', s(l))
                seen_marker = True
        else:
            emit('stray-header-line', s(l))
    fields = [(x[1], x[2]) for x in lines if x[0] == 'F']
    names = []
    for k, _ in fields:
        if k not in names:
            names.append(k)
    vals = lambda k: [v for kk, v in fields if kk == k]
    distinct = lambda k: sorted(set(vals(k)))
    # names
    reg = registered_fields()
    for k in names:
        if not (k.startswith('X-') or k.startswith('x-')) and k not in reg:
            hint = None
            for r in reg:
                if r.lower() == k.lower():
                    hint = r
            if hint is None:
                hint = close_field(k)
            if hint is not None and hint in names:
                hint = None
            if hint is None:
                emit('unknown-header-field', s(k))
            else:
                emit('unknown-header-field', s(k), s('=>'), s(hint))
        if len(vals(k)) > 1 and k not in DEDICATED:
            emit('duplicate-header-field', s(k))
    # MIME-Version, Content-Transfer-Encoding
    for field, good, low in (('MIME-Version', '1.0', 'mime-version'), ('Content-Transfer-Encoding', '8bit', 'content-transfer-encoding')):
        if not vals(field):
            emit(f'no-{low}-header-field', S(f'{field}: {good}'))
        if len(vals(field)) > 1:
            emit(f'duplicate-header-field-{low}')
        for v in distinct(field):
            if v != good:
                emit(f'invalid-{low}', s(v), s('=>'), s(good))
    # Content-Type
    cts = vals('Content-Type')
    if not cts:
        emit('no-content-type-header-field', S('Content-Type: text/plain; charset=<encoding>'))
    if len(cts) > 1:
        emit('duplicate-header-field-content-type')
    language = parse_lang(case['language'])
    for ct in distinct('Content-Type'):
        m = re.search(r'(\Atext/plain; )?\bcharset=([^\s;]+)\Z', ct)
        if not m:
            emit('invalid-content-type', s(ct), s('=>'), s('text/plain; charset=<encoding>'))
            continue
        try:
            ctags, kept = ref_charset_tags(ct, m.group(2), template, language)
        except Exception:
            return None
        for name, extras in ctags:
            emit(name, *extras)
        if m.group(1) is None:
            emit('invalid-content-type', s(ct), s('=>'), s('text/plain; charset=' + (kept if kept is not None else '<encoding>')))
    # dates (C18's reference)
    r = D.ref_tags(D.Ctx(cts[0] if cts else None, binary, template, vals('POT-Creation-Date'), vals('PO-Revision-Date'), NOW_US))
    if r[0] != 'ok':
        return None
    for name, args in r[1]:
        emit(name, *[k + ':' + hexs(t) for k, t in args])
    # Project-Id-Version
    pv = vals('Project-Id-Version')
    if not pv:
        emit('no-project-id-version-header-field')
    if len(pv) > 1:
        emit('duplicate-header-field-project-id-version')
    for v in distinct('Project-Id-Version'):
        if v in ('PACKAGE VERSION', 'PROJECT VERSION'):
            emit('boilerplate-in-project-id-version', s(v))
        else:
            if not any(c != '_' and re.fullmatch(r'\w', c) and not re.fullmatch(r'\d', c) for c in v):
                emit('no-package-name-in-project-id-version', s(v))
            if not any(c in '0123456789' for c in v):
                emit('no-version-in-project-id-version', s(v))
    # Report-Msgid-Bugs-To
    rv = vals('Report-Msgid-Bugs-To')
    if len(rv) > 1:
        emit('duplicate-header-field-report-msgid-bugs-to')
    if all(v == '' for v in rv):
        emit('no-report-msgid-bugs-to-header-field')
    else:
        for v in distinct('Report-Msgid-Bugs-To'):
            a = parseaddr(v)
            if '@' not in a:
                if not url_scheme(v):
                    emit('invalid-report-msgid-bugs-to', s(v))
            else:
                verdict = ref_addr_verdict(a, {'EMAIL@ADDRESS'})
                if verdict in ('reserved', 'dotless'):
                    emit('invalid-report-msgid-bugs-to', s(v))
                elif verdict == 'boilerplate':
                    emit('boilerplate-in-report-msgid-bugs-to', s(v))
    # Last-Translator
    lt = vals('Last-Translator')
    if not lt:
        emit('no-last-translator-header-field')
    if len(lt) > 1:
        emit('duplicate-header-field-last-translator')
    for v in distinct('Last-Translator'):
        a = parseaddr(v)
        if '@' not in a:
            emit('invalid-last-translator', s(v))
        else:
            verdict = ref_addr_verdict(a, {'EMAIL@ADDRESS'})
            if verdict in ('reserved', 'dotless'):
                emit('invalid-last-translator', s(v))
            elif verdict == 'boilerplate' and not template:
                emit('boilerplate-in-last-translator', s(v))
    # Language-Team
    tv = vals('Language-Team')
    if not tv:
        emit('no-language-team-header-field')
    if len(tv) > 1:
        emit('duplicate-header-field-language-team')
    for v in distinct('Language-Team'):
        a = parseaddr(v)
        if '@' not in a:
            continue
        verdict = ref_addr_verdict(a, {'EMAIL@ADDRESS', 'LL@li.org'})
        if verdict in ('reserved', 'dotless'):
            emit('invalid-language-team', s(v))
        elif verdict == 'boilerplate':
            if not template:
                emit('boilerplate-in-language-team', s(v))
        else:
            same = [w for w in distinct('Last-Translator') if parseaddr(w) == a]
            if same:
                emit('language-team-equal-to-last-translator', s(v), s(same[-1]))
    return out

def counter_of_calls(calls):
    c = collections.Counter()
    for name, extra in calls:
        c[(name, tuple(canon_extra(x) for x in extra))] += 1
    return c

def show_counter(c):
    def dec(x):
        k, _, h = x.partition(':')
        return k + ':' + repr('' if h == '-' else ''.join(chr(int(t, 16)) for t in h.split('.')))
    return sorted(f'{n}x {name}({", ".join(dec(x) for x in extras)})' for (name, extras), n in c.items())

def prop_case(case):
    """the property on one case: real header stages vs the reference rule set.  None = holds; else a replay dict with `key`."""
    r = real_all(case)
    base = {'input': {'kind': case['kind'], 'comments': case['comments'], 'entries': case['entries'], 'context_language': case['language'],
                      'now': NOW.isoformat()},
            'how': 'check_comments, check_headers, check_mime, check_dates, check_project, check_translator of lib.check.Checker on a synthetic ctx '
                   '(tools/checks/hdr_common.py real_all); reference = hdr_common.ref_tags'}
    if r[0] == 'err':
        return dict(base, kind=f'a header check raised {r[1]}', key=f'C15:crash:{r[1]}',
                    tags_before_the_exception=show_counter(counter_of_calls(r[2])))
    try:
        ref = ref_tags(case)
    except Exception as exc:
        return None
    if ref is None:
        return None
    got = counter_of_calls(r[1])
    if got != ref:
        missing = ref - got
        extra = got - ref
        names = sorted({n for (n, _e) in list(missing) + list(extra)})
        return dict(base, kind='header tags differ from the documented rule set', key='C15:tags-differ:' + ','.join(names),
                    reported_but_not_due=show_counter(extra), due_but_not_reported=show_counter(missing))
    return None

def shrink_case(case, bad):
    """greedy reduction of a failing case: drop entries, header lines, comment lines, flags while `bad(case)` stays true"""
    import copy
    cur = copy.deepcopy(case)
    def attempt(c):
        try:
            return bad(c)
        except Exception:
            return False
    changed = True
    while changed:
        changed = False
        for i in range(len(cur['entries'])):
            c = copy.deepcopy(cur); del c['entries'][i]
            if attempt(c):
                cur = c; changed = True; break
        if changed:
            continue
        for i, e in enumerate(cur['entries']):
            for fieldname in ('msgstr', 'msgstr0'):
                t = e[fieldname]
                if not t:
                    continue
                ls = t.split('\n')
                for j in range(len(ls)):
                    c = copy.deepcopy(cur)
                    c['entries'][i][fieldname] = '\n'.join(ls[:j] + ls[j + 1:])
                    if attempt(c):
                        cur = c; changed = True; break
                if changed:
                    break
            if changed:
                break
            for key, empty in (('flags', []), ('occurrences', []), ('plural', None)):
                if e[key]:
                    c = copy.deepcopy(cur); c['entries'][i][key] = empty
                    if attempt(c):
                        cur = c; changed = True; break
            if changed:
                break
        if changed:
            continue
        if cur['comments']:
            ls = cur['comments'].split('\n')
            for j in range(len(ls)):
                c = copy.deepcopy(cur); c['comments'] = '\n'.join(ls[:j] + ls[j + 1:])
                if attempt(c):
                    cur = c; changed = True; break
        if not changed and cur['language'] is not None:
            c = copy.deepcopy(cur); c['language'] = None
            if attempt(c):
                cur = c; changed = True
    return cur

# ------------------------------------------------------------------ end to end: files on disk through Checker.check()

STAGES = ('check_comments', 'check_headers', 'check_language', 'check_plurals', 'check_mime', 'check_dates', 'check_project',
          'check_translator', 'check_messages')
OURS = ('check_comments', 'check_headers', 'check_mime', 'check_dates', 'check_project', 'check_translator')

def po_escape(s):
    out = ''
    for ch in s:
        if ch == '\\': out += '\\\\'
        elif ch == '"': out += '\\"'
        elif ch == '\n': out += '\\n'
        elif ch == '\t': out += '\\t'
        else: out += ch
    return out

def file_safe_text(t):
    return all((' ' <= c <= '~') or c in '\n\t' for c in t)

def file_safe(case):
    """can the case be written as a PO / MO file that the loader reads back as intended (ASCII text, simple shapes)"""
    kind = case['kind']
    if not file_safe_text(case['comments']) or '\t' in case['comments']:
        return False
    if any(l != l.strip() or l.startswith(('.', ':', ',', '|', '~')) for l in case['comments'].split('\n')):
        return False
    for e in case['entries']:
        for t in (e['msgid'], e['msgctxt'] or '', e['plural'] or '', e['msgstr'] or '', e['msgstr0'] or ''):
            if not file_safe_text(t):
                return False
        if e['plural'] is None and e['msgstr0'] is not None:
            return False
        if e['plural'] is not None and e['msgstr0'] is None:
            return False
        if e['plural'] is not None and e['msgstr']:
            return False
        for f in e['flags']:
            if not f or f != f.strip() or ',' in f or not file_safe_text(f) or '\n' in f or '\t' in f:
                return False
        for p, l in e['occurrences']:
            if not p or not l.isdigit() or ' ' in p or ':' in p or not file_safe_text(p) or '\n' in p or '\t' in p:
                return False
        if kind == 'mo' and (e['flags'] or e['occurrences'] or e['obsolete'] or (e['msgctxt'] is not None and e['msgctxt'] == '')):
            return False
        if e['obsolete'] and (e['occurrences'] or e['plural'] is not None):
            return False
    if kind == 'mo':
        if case['comments']:
            return False
        keys = [(e['msgctxt'], e['msgid']) for e in case['entries']]
        if len(set(keys)) != len(keys):
            return False
    return True

def po_bytes(case):
    out = ''
    if case['comments']:
        for l in case['comments'].split('\n'):
            out += ('# ' + l).rstrip(' ') + '\n'
    first = True
    for e in case['entries']:
        if not first or case['comments']:
            out += '\n' if not first else ''
        first = False
        pre = '#~ ' if e['obsolete'] else ''
        for p, l in e['occurrences']:
            out += f'#: {p}:{l}\n'
        if e['flags']:
            out += '#, ' + ', '.join(e['flags']) + '\n'
        if e['msgctxt'] is not None:
            out += f'{pre}msgctxt "{po_escape(e["msgctxt"])}"\n'
        out += f'{pre}msgid "{po_escape(e["msgid"])}"\n'
        if e['plural'] is not None:
            out += f'{pre}msgid_plural "{po_escape(e["plural"])}"\n'
            out += f'{pre}msgstr[0] "{po_escape(e["msgstr0"] or "")}"\n'
        else:
            out += f'{pre}msgstr "{po_escape(e["msgstr"] or "")}"\n'
    return out.encode('ascii')

def mo_bytes(case):
    from gen import mo as GM
    cat = []
    for e in case['entries']:
        ctxt = None if e['msgctxt'] is None else e['msgctxt'].encode('ascii')
        plural = None if e['plural'] is None else e['plural'].encode('ascii')
        forms = [(e['msgstr0'] if e['plural'] is not None else e['msgstr'] or '').encode('ascii')]
        cat.append((ctxt, e['msgid'].encode('ascii'), plural, forms))
    lay = dict(be=False, major=0, minor=0, nsysdep=0, hash=0, order='ktp', pad=0, share=False, pool='kv', gap=0)
    return GM.serialize(cat, lay)

def snapshot(file):
    out = []
    for e in file:
        out.append({'msgid': e.msgid, 'msgctxt': e.msgctxt, 'obsolete': bool(e.obsolete), 'occurrences': [tuple(o) for o in e.occurrences],
                    'plural': e.msgid_plural, 'msgstr': e.msgstr or '', 'msgstr0': e.msgstr_plural.get(0) if e.msgstr_plural else None,
                    'flags': list(e.flags)})
    return out

def run_file(path):
    """real `Checker(path).check()`: ('ok', header-stage calls, str(ctx.language)|None, loaded entries, loaded comments, other tags)"""
    import argparse
    k, misc = M()[2], M()[4]
    calls = []
    info = {'language': None, 'entries': None, 'comments': None}
    stage = [None]
    class Cap(k.Checker):
        def tag(self, tagname, *extra):
            calls.append((stage[0], tagname, extra))
    def wrap(name):
        orig = getattr(k.Checker, name)
        def method(self, ctx, *a, **kw):
            stage[0] = name
            try:
                if name == 'check_comments':
                    info['comments'] = ctx.file.header
                    info['entries'] = snapshot(ctx.file)
                return orig(self, ctx, *a, **kw)
            finally:
                if name == 'check_language':
                    lang = getattr(ctx, 'language', None)
                    info['language'] = None if lang is None else str(lang)
                stage[0] = None
        return method
    for name in STAGES:
        setattr(Cap, name, wrap(name))
    options = argparse.Namespace(ignore_tags=set(), fake_root=None, file_type=None, language=None, unpack_deb=False, jobs=1)
    saved = getattr(misc, 'utc_now', None)
    misc.utc_now = lambda: NOW
    try:
        Cap(path, options=options).check()
    except Exception as exc:
        return ('err', type(exc).__name__, [(n, x) for s, n, x in calls if s in OURS], info)
    finally:
        misc.utc_now = saved
    return ('ok', [(n, x) for s, n, x in calls if s in OURS], info, [n for s, n, x in calls if s is None])

def norm_entries(es):
    return [{**e, 'msgstr': e['msgstr'] or '', 'occurrences': [tuple(o) for o in e['occurrences']]} for e in es]

def e2e(cases, workdir):
    """[(case with the language the real check_language found, impl line)] for the cases whose file loads as intended"""
    out, skipped = [], collections.Counter()
    for i, case in enumerate(cases):
        kind = case['kind']
        try:
            data = mo_bytes(case) if kind == 'mo' else po_bytes(case)
        except Exception:
            skipped['unwritable'] += 1
            continue
        path = os.path.join(workdir, f'f{i}.{kind}')
        with open(path, 'wb') as f:
            f.write(data)
        r = run_file(path)
        info = r[3] if r[0] == 'err' else r[2]
        if info['entries'] is None:
            skipped['not-loaded:' + ','.join(sorted(set(r[3])) if r[0] == 'ok' else [r[1]])] += 1
            continue
        want = norm_entries(case['entries'])
        if kind == 'mo':
            for e in want:
                e['msgstr0'] = e['msgstr0'] if e['plural'] is not None else None
        if info['entries'] != want or (info['comments'] or '') != case['comments']:
            skipped['loaded-differently'] += 1
            continue
        c2 = dict(case, language=info['language'])
        out.append((c2, 'ok ' + canon_calls(r[1]) if r[0] == 'ok' else 'err crash'))
    return out, skipped
