"""C15: the real header checks canonically (`parse_header`, `check_comments`, `check_headers`, `check_mime`, `check_dates`,
`check_project`, `check_translator` on synthetic `ctx` namespaces with a capturing `tag()`; `Checker.check()` on files), the
library results the model takes as inputs (computed here by calling the libraries directly), the protocol lines for the Lean
driver (`hdr …`), an INDEPENDENT reference of the Appendix-A rule set written from data/tags, and the falsifier."""
import collections, datetime, difflib, email.utils, os, re, struct, sys, types, urllib.parse
sys.path.insert(0, os.path.join(os.path.dirname(os.path.abspath(__file__)), '..'))
import common
from gen import hdr as G

common.setup_repo_import()

NOW = datetime.datetime(2026, 1, 1, 0, 0, tzinfo=datetime.timezone.utc)
NOW_US = int((NOW - datetime.datetime(1970, 1, 1, tzinfo=datetime.timezone.utc)) // datetime.timedelta(microseconds=1))

def hexs(s):
    return '.'.join('%x' % ord(c) for c in s) if s else '-'

def hexo(s):
    return '~' if s is None else hexs(s)

def hlist(xs, sep=','):
    return sep.join(hexs(x) for x in xs) if xs else '_'

def htable(pairs):
    """`k=v,…` with hex keys; values already in wire form"""
    pairs = list(pairs)
    return ','.join(f'{hexs(k)}={v}' for k, v in pairs) if pairs else '_'

# ------------------------------------------------------------------ the real modules

_M = None
def M():
    """(gettext, domains, check, encodings, misc, tags) of the tree under test; a module that cannot be imported becomes a
    stand-in whose every attribute raises"""
    global _M
    if _M is None:
        import checker_harness as H
        class Broken:
            def __init__(self, err):
                self._err = err
            def __getattr__(self, name):
                err = self._err
                def raiser(*a, **k):
                    raise RuntimeError(f'module cannot be imported: {type(err).__name__}: {err}')
                return raiser
        res = []
        for name in ('gettext', 'domains', 'check', 'encodings', 'misc', 'tags'):
            try:
                res.append(__import__('lib.' + name, fromlist=['x']))
            except BaseException as exc:
                res.append(Broken(exc))
        try:
            H.ready()
        except BaseException:
            pass
        _M = tuple(res)
    return _M

def canon_extra(x):
    tags = M()[5]
    try:
        if isinstance(x, tags.safestr):
            return 'S:' + hexs(str(x))
    except Exception:
        pass
    if isinstance(x, bool):
        return 'i:%d' % int(x)
    if isinstance(x, int):
        return 'i:%d' % x
    if isinstance(x, bytes):
        return 'b:' + x.hex()
    if isinstance(x, str):
        return 's:' + hexs(x)
    return 's:' + hexs(str(x))

def canon_calls(calls):
    return ';'.join(name + '(' + ','.join(canon_extra(x) for x in extra) + ')' for name, extra in calls) or '-'

def make_checker(path='/nonexistent/x.po'):
    import checker_harness as H
    return H.make_checker(path)

# ------------------------------------------------------------------ leaf functions of the real code

def impl_parse(s):
    g = M()[0]
    try:
        out = []
        for line in g.parse_header(s):
            if isinstance(line, dict):
                [(k, v)] = line.items()
                out.append('F' + hexs(k) + ':' + hexs(v))
            else:
                out.append('S' + hexs(line))
        return 'ok ' + (';'.join(out) or '-')
    except Exception as exc:
        return 'err ' + type(exc).__name__

def impl_splitlines(s):
    ls = s.splitlines()
    return 'ok ' + (','.join(hexs(l) for l in ls) if ls else '_')

def impl_special(d):
    """`domains._is_special` on an already lower-cased domain"""
    dm = M()[1]
    try:
        return 'ok 1' if dm._is_special(d) else 'ok 0'
    except Exception as exc:
        return 'err ' + type(exc).__name__

def impl_email(addr):
    dm = M()[1]
    try:
        _, domain = addr.rsplit('@', 1)
        return f'ok {hexs(domain)} {1 if dm.is_email_in_special_domain(addr) else 0} {1 if dm.is_email_in_dotless_domain(addr) else 0}'
    except Exception as exc:
        return 'err ' + type(exc).__name__

_CT = None
def content_type_regex():
    """the regex text `check_mime` hands to `re.search` (taken from the method's ast, as the translator does)"""
    global _CT
    if _CT is None:
        import ast, inspect, textwrap
        k = M()[2]
        try:
            node = ast.parse(textwrap.dedent(inspect.getsource(k.Checker.check_mime)))
            pats = [n.args[0].value for n in ast.walk(node) if isinstance(n, ast.Call) and isinstance(n.func, ast.Attribute) and n.func.attr == 'search'
                    and isinstance(n.func.value, ast.Name) and n.func.value.id == 're' and n.args and isinstance(n.args[0], ast.Constant)]
            _CT = re.compile(pats[0])
        except Exception:
            _CT = re.compile(r'(\Atext/plain; )?\bcharset=([^\s;]+)\Z')
    return _CT

def impl_ctype(ct):
    m = content_type_regex().search(ct)
    if m is None:
        return 'ok ~'
    try:
        return f'ok {0 if m.group(1) is None else 1} {hexs(m.group(2))}'
    except Exception as exc:
        return 'err ' + type(exc).__name__

def impl_unusual(s):
    k, e = M()[2], M()[3]
    try:
        cs = sorted(set(k.find_unusual_characters(s)))
    except Exception as exc:
        return 'err ' + type(exc).__name__
    try:
        text = ', '.join(f'U+{ord(ch):04X} {e.get_character_name(ch)}' for ch in cs)
        return f'ok {hexs("".join(cs))} {hexs(text)}'
    except Exception:
        return f'ok {hexs("".join(cs))} !'

# ------------------------------------------------------------------ the check_* methods on synthetic contexts

class FakeFile(list):
    """what `check_headers` touches of a polib file: a list of entries with `metadata`, `metadata_is_fuzzy`, `header`"""
    def __init__(self, entries, header=''):
        super().__init__(entries)
        self.metadata = {}
        self.metadata_is_fuzzy = False
        self.header = header
        self.header_entry = None

def real_entry(e):
    return types.SimpleNamespace(
        msgid=e['msgid'], msgctxt=e['msgctxt'], obsolete=e['obsolete'], occurrences=list(e['occurrences']), msgid_plural=e['plural'],
        msgstr=e['msgstr'], msgstr_plural=({} if e['msgstr0'] is None else {0: e['msgstr0']}), flags=list(e['flags']),
        previous_msgctxt=None, previous_msgid=None, previous_msgid_plural=None, comment='', tcomment='')

def meta_of_lines(lines):
    """`ctx.metadata` as `check_headers` would leave it for these (key, value) field lines"""
    md = collections.defaultdict(list)
    for k, v in lines:
        md[k] += [v]
    return md

def show_meta(md):
    items = [(k, v) for k, v in md.items() if v]
    return ';'.join(hexs(k) + '=' + ','.join(hexs(x) for x in v) for k, v in items) or '_'

def impl_comments(tmpl, text):
    try:
        chk, calls = make_checker()
        ctx = types.SimpleNamespace(file=FakeFile([], header=text), is_template=bool(tmpl), is_binary=False)
        chk.check_comments(ctx)
        return 'ok ' + canon_calls(calls)
    except Exception as exc:
        return 'err ' + type(exc).__name__

def impl_headers(tmpl, entries):
    try:
        chk, calls = make_checker()
        ctx = types.SimpleNamespace(file=FakeFile([real_entry(e) for e in entries]), is_template=bool(tmpl), is_binary=False)
        chk.check_headers(ctx)
        return f'ok {canon_calls(calls)} meta={show_meta(ctx.metadata)}'
    except Exception as exc:
        return 'err crash'

def parse_lang(s):
    if s is None:
        return None
    import charset_common as CC
    return CC.parse_lang(s)

def impl_mime(tmpl, lines, lang_str):
    try:
        chk, calls = make_checker()
        ctx = types.SimpleNamespace(metadata=meta_of_lines(lines), is_template=bool(tmpl), is_binary=False, language=parse_lang(lang_str), encoding='unset')
        chk.check_mime(ctx)
        return f'ok {canon_calls(calls)} enc={hexo(ctx.encoding)}'
    except Exception as exc:
        return 'err crash'

def impl_project(lines):
    try:
        chk, calls = make_checker()
        ctx = types.SimpleNamespace(metadata=meta_of_lines(lines), is_template=False, is_binary=False)
        chk.check_project(ctx)
        return 'ok ' + canon_calls(calls)
    except Exception as exc:
        return 'err ' + type(exc).__name__

def impl_translator(tmpl, lines):
    try:
        chk, calls = make_checker()
        ctx = types.SimpleNamespace(metadata=meta_of_lines(lines), is_template=bool(tmpl), is_binary=False)
        chk.check_translator(ctx)
        return 'ok ' + canon_calls(calls)
    except Exception as exc:
        return 'err ' + type(exc).__name__

def real_all(case):
    """the header stages of `Checker.check` in source order on a synthetic ctx (check_language replaced by setting
    ctx.language; check_plurals and check_messages not run): ('ok', calls) or ('err', exception name)"""
    misc = M()[4]
    saved = getattr(misc, 'utc_now', None)
    calls = []
    try:
        chk, calls = make_checker()
        kind = case['kind']
        ctx = types.SimpleNamespace(file=FakeFile([real_entry(e) for e in case['entries']], header=case['comments']),
                                    is_template=(kind == 'pot'), is_binary=(kind == 'mo'))
        misc.utc_now = lambda: NOW
        chk.check_comments(ctx)
        chk.check_headers(ctx)
        ctx.language = parse_lang(case['language'])
        chk.check_mime(ctx)
        chk.check_dates(ctx)
        chk.check_project(ctx)
        chk.check_translator(ctx)
        return ('ok', calls)
    except Exception as exc:
        return ('err', type(exc).__name__, calls)
    finally:
        misc.utc_now = saved

def impl_all(case):
    r = real_all(case)
    return 'ok ' + canon_calls(r[1]) if r[0] == 'ok' else 'err crash'

# ------------------------------------------------------------------ library results (inputs of the model), computed directly

def ref_parse_header(s):
    """own splitter (the field grammar of the property): [('F', key, value) | ('S', line)]"""
    lines = s.split('\n')
    if lines and lines[-1] == '':
        lines.pop()
    out = []
    for line in lines:
        i = line.find(':')
        key = line[:i] if i >= 0 else None
        if key and all(0x21 <= ord(c) <= 0x7E and c != ':' for c in key):
            out.append(('F', key, line[i + 1:].strip(' \t')))
        else:
            out.append(('S', line))
    return out

def header_entries(entries):
    return [(i, e) for i, e in enumerate(entries) if e['msgid'] == '' and e['msgctxt'] is None and not e['obsolete']]

def header_text_of(e):
    t = e['msgstr0'] if e['msgstr0'] is not None else e['msgstr']
    return t or ''

def fields_of_case(entries):
    hs = header_entries(entries)
    if not hs:
        return []
    return [(x[1], x[2]) for x in ref_parse_header(header_text_of(hs[0][1])) if x[0] == 'F']

def parseaddr(v):
    return email.utils.parseaddr(v)[1]

def url_scheme(v):
    try:
        return urllib.parse.urlparse(v).scheme
    except ValueError:
        return None

_FIELDS = None
def registered_fields():
    """data/header-fields, read directly"""
    global _FIELDS
    if _FIELDS is None:
        path = os.path.join(common.REPO, 'data', 'header-fields')
        try:
            with open(path, encoding='ascii') as f:
                _FIELDS = frozenset(l.strip() for l in f if l.strip() and not l.startswith('#'))
        except OSError:
            _FIELDS = frozenset()
    return _FIELDS

def close_fuzzy(flag):
    return bool(difflib.get_close_matches(flag.lower(), ['fuzzy'], cutoff=0.8))

def close_field(key):
    r = difflib.get_close_matches(key, registered_fields(), n=1, cutoff=0.8)
    return r[0] if r else None

def addr_values(lines):
    return [v for k, v in lines if k in ('Report-Msgid-Bugs-To', 'Last-Translator', 'Language-Team')]

def addr_table(lines):
    seen = {}
    for v in addr_values(lines):
        seen.setdefault(v, parseaddr(v))
    return seen

def scheme_table(lines):
    seen = {}
    for k, v in lines:
        if k == 'Report-Msgid-Bugs-To':
            s = url_scheme(v)
            seen.setdefault(v, '~' if s is None else hexs(s))
    return seen

def lower_table(addrs):
    """`str.lower` of the domains the model may ask about (ASCII ones are lower-cased by the driver itself)"""
    t = {}
    for a in addrs:
        if '@' in a:
            d = a.rsplit('@', 1)[1]
            if not d.isascii():
                t[d] = d.lower()
    return t

_ENC_CACHE = {}
def enc_entry(name, chars_key, chars):
    """`<enc>=<dec>/<codec|~>/<joined>:<per>`: how the encoding decodes the ASCII repertoire, its codec name, and whether it can
    encode the language's characters (asked of Python's codecs directly, as C20's harness does)"""
    import charset_common as CC
    key = (name, chars_key)
    if key not in _ENC_CACHE:
        d = CC.dec_outcome(name)[0]
        codec = CC.lookup_name(name)
        if chars is None:
            j, per = 'o', ''
        else:
            j = CC.enc_outcome(''.join(chars), name)
            per = ''.join(CC.enc_outcome(c, name) for c in chars)
        _ENC_CACHE[key] = f'{hexs(name)}={d}/{"~" if codec is None else hexs(codec)}/{j}:{per}'
    return _ENC_CACHE[key]

_CHARS = {}
def language_chars(lang_str):
    """`~` / `^` / list for the driver, and the list itself"""
    import charset_common as CC
    if lang_str is None:
        return '~', None
    if lang_str not in _CHARS:
        if CC.parse_lang(lang_str) is None:
            _CHARS[lang_str] = ('~', None)
        else:
            chars = CC.reference_characters(lang_str)
            _CHARS[lang_str] = ('^', None) if chars is None else ((','.join(hexs(c) for c in chars) if chars else '-'), chars)
    return _CHARS[lang_str]

def charset_names(cts):
    """every encoding name `check_mime` could look at in these Content-Type values (with the names it may propose instead)"""
    E = M()[3]
    names = []
    for ct in cts:
        for m in re.finditer(r'charset=', ct):
            rest = ct[m.end():]
            enc = re.match(r'[^\s;]*', rest).group(0)
            for cand in (enc, rest):
                if cand and cand not in names and '\x00' not in cand:
                    names.append(cand)
    out = list(names)
    for n in names:
        try:
            p = E.propose_portable_encoding(n)
        except Exception:
            p = None
        if isinstance(p, str) and p not in out:
            out.append(p)
    return out

def charset_args(lines, lang_str):
    cs, chars = language_chars(lang_str)
    cts = [v for k, v in lines if k == 'Content-Type']
    names = charset_names(cts)
    encs = ';'.join(enc_entry(n, lang_str if chars is not None else None, chars) for n in names) or '_'
    return cs, encs

# ------------------------------------------------------------------ protocol lines

def entries_arg(entries):
    def one(e):
        occ = ','.join(hexs(p) + ':' + hexs(l) for p, l in e['occurrences']) or '_'
        return '/'.join([hexs(e['msgid']), hexo(e['msgctxt']), '1' if e['obsolete'] else '0', occ, hexo(e['plural']),
                         hexs(e['msgstr'] or ''), hexo(e['msgstr0']), hlist(e['flags'])])
    return '|'.join(one(e) for e in entries) or '_'

def lines_arg(lines):
    return ';'.join(hexs(k) + ':' + hexs(v) for k, v in lines) or '_'

def fuzzy_arg(entries):
    flags = []
    for e in entries:
        for f in e['flags']:
            if f not in flags and close_fuzzy(f):
                flags.append(f)
    return hlist(flags)

def field_arg(entries):
    t = {}
    for e in entries:
        for x in ref_parse_header(header_text_of(e)):
            if x[0] == 'F' and x[1] not in t:
                c = close_field(x[1])
                if c is not None:
                    t[x[1]] = hexs(c)
    return htable(t.items())

def headers_line(tmpl, entries):
    return f'hdr headers {int(tmpl)} {entries_arg(entries)} {fuzzy_arg(entries)} {field_arg(entries)}'

def mime_line(tmpl, lines, lang_str):
    cs, encs = charset_args(lines, lang_str)
    return f'hdr mime {int(tmpl)} {lines_arg(lines)} {cs} {encs}'

def tables_for(lines):
    at = addr_table(lines)
    return (htable((k, hexs(v)) for k, v in at.items()), htable(scheme_table(lines).items()),
            htable((k, hexs(v)) for k, v in lower_table(at.values()).items()))

def project_line(lines):
    a, s, l = tables_for(lines)
    return f'hdr project {lines_arg(lines)} {a} {s} {l}'

def translator_line(tmpl, lines):
    a, _s, l = tables_for(lines)
    return f'hdr translator {int(tmpl)} {lines_arg(lines)} {a} {l}'

def all_line(case):
    kind = case['kind']
    es = case['entries']
    lines = fields_of_case(es)
    a, s, l = tables_for(lines)
    cs, encs = charset_args(lines, case['language'])
    return (f'hdr all {int(kind == "pot")} {int(kind == "mo")} {hexs(case["comments"])} {entries_arg(es)} {NOW_US} '
            f'{fuzzy_arg(es)} {field_arg(es)} {a} {s} {l} {cs} {encs}')
