#!/venv/bin/python
"""C10 — PO text decodes to exactly the strings gettext would see (polib 1.2.0 + lib/polib4us.py)."""
import glob, json, os, re, sys
sys.path.insert(0, os.path.join(os.path.dirname(os.path.abspath(__file__)), '..'))
import common
from gen import po as G

WITNESS_FIXED = [
    # (key of the fixed finding, file, what must hold now)
    ('C10:last-entry-dropped-after-ignored-comment', b'msgid "a"\nmsgstr "b"\n#.\n', 'entries'),
    ('C10:last-entry-dropped-after-ignored-comment', b'msgid "a"\nmsgstr "b"\n#~| msgid "x"\n', 'entries'),
    ('C10:octal-escape-syntaxwarning', b'msgid "a\\8"\nmsgstr "b\\400c"\n', 'stderr'),
]

# the recorded open finding: a continuation cut between the escaped bytes of one character
WITNESS_OPEN = [
    ('C10:cut-inside-escaped-character',
     b'msgid ""\nmsgstr "Content-Type: text/plain; charset=UTF-8\\n"\n\nmsgid "\\xc4"\n"\\x85"\nmsgstr ""\n',
     b'msgid ""\nmsgstr "Content-Type: text/plain; charset=UTF-8\\n"\n\nmsgid "\\xc4\\x85"\nmsgstr ""\n', '\u0105'),
]

# the recorded open finding: the charset of the first line matching detect_encoding's pattern wins (here: a comment)
WITNESS_DETECT = ('C10:charset-from-earlier-line',
                  '# Content-Type: text/plain; charset=KOI8-R\nmsgid ""\nmsgstr "Content-Type: text/plain; charset=UTF-8\\n"\n\nmsgid "\u017c"\nmsgstr "x"\n'.encode('UTF-8'),
                  '\u017c')

SIMPLE_CHARSETS = ['UTF-8', 'ISO-8859-1', 'ISO-8859-2', 'ISO-8859-15', 'KOI8-R', 'CP1251', 'KOI8-RU', 'GEORGIAN-PS', 'ASCII', 'UTF-8', 'UTF-8']
NONCOMPAT = ['UTF-16', 'UTF-7', 'CP037', 'UTF-32']          # declared, but the file is read as ASCII

# ----------------------------------------------------------------------------- inputs

def wellformed(rng, n, charsets):
    """(data, catalog, charset, text) — PO spellings of random catalogs"""
    out = []
    for _ in range(n):
        cs = rng.choice(charsets)
        if rng.random() < 0.04:
            decl = rng.choice(NONCOMPAT)
            cat = G.gen_catalog(rng, 'ASCII', with_header=True)
            cat['entries'][0]['msgstr'] = cat['entries'][0]['msgstr'].replace('charset=ASCII', 'charset=' + decl)
            text = G.render(rng, cat, 'ASCII')
            out.append((text.encode('ASCII'), cat, decl, text))
            continue
        cat = G.gen_catalog(rng, cs)
        text = G.render(rng, cat, cs)
        try:
            data = text.encode(cs)
        except UnicodeError:
            continue
        out.append((data, cat, cs, text))
    return out

def malformed(rng, n):
    out = []
    for _ in range(n):
        r = rng.random()
        if r < 0.5:
            cs = rng.choice(SIMPLE_CHARSETS)
            cat = G.gen_catalog(rng, cs)
            text = G.mutate(rng, G.render(rng, cat, cs))
            data = text.encode(cs, 'replace') if rng.random() < 0.9 else text.encode('UTF-8')
        elif r < 0.9:
            data = G.gen_soup(rng).encode(rng.choice(['UTF-8', 'ISO-8859-2']), 'replace')
        else:
            data = bytes(rng.randrange(256) if rng.random() < 0.1 else rng.choice(b'msgid "\\x\n#~|., 019afcharset=')
                         for _ in range(rng.choice([0, 1, 5, 30])))
        enc = None if rng.random() < 0.8 else rng.choice(['ISO-8859-1', 'UTF-8', 'ASCII'])
        out.append((data, enc))
    return out

ESC_TOKENS = ['\\n', '\\t', '\\b', '\\r', '\\f', '\\v', '\\a', '\\\\', '\\"', '\\0', '\\7', '\\10', '\\101', '\\141', '\\377', '\\400', '\\477', '\\777', '\\1234', '\\8', '\\9',
              '\\x', '\\x4', '\\x41', '\\x414', '\\xA', '\\xa', '\\xfg', '\\xc4\\x85', '\\304\\205', '\\xc4', '\\x85', '\\xff', '\\200', '\\xe2\\x82\\xac', '\\244', '\\xb1',
              '\\e', '\\', '\\N', '\\u0041', "\\'", '\\\n']

def unescape_inputs(rng, n):
    out = []
    encs = ['UTF-8', 'ISO-8859-2', 'ASCII', 'KOI8-R', 'ISO-8859-1', 'UTF-8', 'KOI8-RU']
    for _ in range(n):
        k = rng.choice([1, 2, 3, 5, 8])
        s = ''.join(rng.choice(ESC_TOKENS) if rng.random() < 0.6 else rng.choice('a0 7fFx"\'\\nz\nąб\r\x85') for _ in range(k))
        out.append((rng.choice(encs), s))
    return out

def preprocess_inputs(rng, n):
    heads = ['#', '# ', '#.', '#:', '#,', '#|', '#~', '#~|', '#~| x', '#. x', '#: a:1', '#, fuzzy', '#!', '#-x', '##', '#\t', ' #', '', ' ', '\t', '\x0c', '\x85', '\u2028',
             'msgid "a"', 'msgstr "b"', '"c"', '#~ msgid "d"', '#.\t', '#. ', '#,  ', ' #.', '#.x', '\ufeff#', '\ufeffmsgid "a"', '#\r', '\r']
    out = []
    for _ in range(n):
        ls = [rng.choice(heads) + (rng.choice(['', '', ' ', 'x', ' y ']) if rng.random() < 0.3 else '') for _ in range(rng.choice([0, 1, 2, 3, 5]))]
        if rng.random() < 0.6:
            ls.insert(rng.randrange(len(ls) + 1), rng.choice(['msgid "a"', 'msgstr "b"', '"c"', '#~ msgid "d"', '#. x', '#, fuzzy', 'x']))
        text = '\n'.join(ls)
        if rng.random() < 0.7 and ls:
            text += '\n'
        if rng.random() < 0.1:
            text = text.replace('\n', rng.choice(['\r\n', '\r', '\n\n']))
        out.append(text)
    return out

def detect_inputs(rng, n):
    parts = ['Content-Type:', '"Content-Type:', ' charset=', 'charset=', ' charset= ', 'UTF-8', 'utf-8', 'ISO-8859-2', 'foo', 'KOI8-RU', 'latin_1', 'x:y.z', ' text/plain;', ';', '\\n"', '\n',
             '\n', ' ', 'a', 'Content-Type: text/plain; charset=UTF-8\\n"\n', 'Content-Type: text/plain; charset=bogus\\n"\n', 'msgid ""\nmsgstr ""\n"', '\r', '\xff', 'euc-jp', 'UTF-16', 'ascii', '-', '.']
    out = []
    for _ in range(n):
        out.append(''.join(rng.choice(parts) for _ in range(rng.choice([1, 3, 5, 8, 12]))).encode('latin-1'))
    return out

def flagline_inputs(rng, n):
    ws = [' ', '\t', '\r', '\x0b', '\x0c', '\x1c', '\x85', '\xa0', '\u2003', '\u3000', '']
    out = []
    for _ in range(n):
        items = []
        for _ in range(rng.choice([1, 1, 2, 3, 5])):
            f = rng.choice(['fuzzy', 'c-format', '', 'x', 'range: 1..2', '-a-', '.b.', 'no-wrap', 'ą', 'a b']) if rng.random() < 0.8 else G.gen_flag(rng, ['ą'])
            items.append(rng.choice(ws) + f + rng.choice(ws))
        body = ','.join(items)
        out.append('#,' + rng.choice([' ', '\t', '  ', '']) + body)
    return out

def corpus():
    """minimised past disagreements / witnesses: files under corpus/C10/*.po, replayed first"""
    out = []
    for p in sorted(glob.glob(os.path.join(common.VERIF, 'corpus', 'C10', '*.po'))):
        out.append(open(p, 'rb').read())
    return out

# ----------------------------------------------------------------------------- falsifier (real code only)

def expected_translated(e):
    if e['obsolete']:
        return False
    if 'fuzzy' in (e['flags'] or []):
        return False
    return bool(e['msgstr']) or any(bool(v) for v in (e['msgstr_plural'] or {}).values())

def check_roundtrip(P, data, cat, charset, text):
    """the property on one spelling: load(p) == c.  → counterexample dict or None"""
    hist_index = len(P._history)
    kind, v, stderr = P.real_load(data)
    base = {'charset': charset, 'file_hex': data.hex(), 'file_text': text, '_hist_index': hist_index,
            'replay': 'write bytes.fromhex(file_hex) to x.po; lib.check.Checker.patch_environment(); polib.pofile("x.po")'}
    if kind != 'ok':
        return dict(base, kind='spelling-rejected', observed=P.canon_error(v) + ' ' + repr(v)[:200], expected='the catalog')
    try:
        got = P.loaded_tuple(v)
        d = P.diff_catalog(G.expected(cat), got)
        if d is None:
            for i, (e, le) in enumerate(zip(cat['entries'], list(v))):
                if bool(le.translated()) != expected_translated(e):
                    d = f'entry {i}: translated() is {bool(le.translated())}, expected {expected_translated(e)} (obsolete={e["obsolete"]}, flags={e["flags"]}, msgstr={e["msgstr"]!r}, forms={e["msgstr_plural"]!r})'
                    break
                for k in le.msgstr_plural.keys():
                    if type(k) is not int:
                        d = f'entry {i}: msgstr_plural key {k!r} is not an int'
    except Exception as exc:
        return dict(base, kind='other-exception', observed=repr(exc), expected='the catalog')
    if d is not None:
        return dict(base, kind='catalog-differs', observed=d, expected='load(p) == c')
    if stderr:
        return dict(base, kind='stderr-noise', observed=stderr[:300], expected='nothing on stderr')
    return None

def shrink(P, rng, cex, cat, charset):
    """a smaller failing spelling of a part of the same catalog: one entry (plus the header entry), fewer fields"""
    import copy
    if cex is None or cex.get('kind') == 'stderr-noise':
        return cex
    best = cex
    entries = cat['entries']
    head = entries[:1] if entries and entries[0]['msgid'] == '' else []
    cands = []
    for e in entries[len(head):] or entries:
        cands.append({'header_comment': '', 'entries': copy.deepcopy(head) + [copy.deepcopy(e)]})
    cands.append({'header_comment': cat['header_comment'], 'entries': copy.deepcopy(head)})
    for small in cands:
        for variant in range(6):
            c2 = copy.deepcopy(small)
            for e in c2['entries'][len(head):]:
                if variant & 1:
                    e['flags'], e['occurrences'], e['comment'], e['tcomment'] = [], [], '', ''
                if variant & 2:
                    e['previous_msgctxt'] = e['previous_msgid'] = e['previous_msgid_plural'] = None
                if variant & 4:
                    e['msgctxt'] = None
            for _ in range(25):
                text = G.render(rng, c2, charset if charset not in NONCOMPAT else 'ASCII')
                try:
                    data = text.encode(charset if charset not in NONCOMPAT else 'ASCII')
                except UnicodeError:
                    continue
                r = check_roundtrip(P, data, c2, charset, text)
                if r is not None and len(r['file_hex']) < len(best['file_hex']):
                    best = dict(r, shrunk_from_bytes=len(cex['file_hex']) // 2)
    return best

def spelled_strings(rng, n):
    """(charset, text, spelling of it as ONE segment) for the unescape clause alone"""
    out = []
    cs_all = G.usable_charsets()
    for _ in range(n):
        cs = rng.choice(cs_all)
        rep = G.repertoire(cs) or []
        t = G.gen_text(rng, rep, maxlen=16, ctrl=G.ascii_ctrl(cs))
        segs = G.spell_string(rng, t, cs, cut_prob=0)
        segs = [s for s in segs if s] or ['']
        if len(segs) != 1:
            # a hazard forced a cut: spell the pieces separately
            continue
        out.append((cs, t, segs[0]))
    return out

def falsify_unescape(P, cases):
    for cs, t, p in cases:
        r, stderr, exc = P.impl_unescape(cs, p)
        if r != 'ok ' + P.hexchars(t) or stderr:
            return {'kind': 'unescape-spelling', 'charset': cs, 'text': t, 'spelling': p, 'observed': (r if exc is None else repr(exc)) + (' stderr: ' + stderr if stderr else ''),
                    'expected': repr(t), 'replay': 'lib.polib4us.polib_unescape(spelling) called from a method whose self.instance.encoding is the charset'}
    return None

def falsify_checker(P, items):
    """the same law through the real Checker.check (charset selection, ISO-8859-1 retry not taken for a clean file)"""
    for data, cat, cs, text in items:
        out = P.impl_check(data)
        kind, v, _ = P.real_load(data)
        want = 'broken=0 ' + (P.canon_file(v) if kind == 'ok' else '?')
        if out != want:
            return {'kind': 'checker-load-differs', 'charset': cs, 'file_hex': data.hex(), 'file_text': text, 'observed': out[:600], 'expected': want[:600],
                    'replay': 'Checker(path).check() with check_comments intercepted: ctx.file vs polib.pofile(path)'}
    return None

def judge_fresh(res, cat):
    """the property on the result of one load op run by po_fresh: None if it is the catalog, else a description"""
    if 'tuple' not in res:
        return 'rejected: ' + res.get('canon', '?') + ' ' + res.get('error', '')
    exp = P_tuple_json(G.expected(cat))
    if res['tuple'] != exp:
        (eh, ee), (gh, ge) = exp, res['tuple']
        if eh != gh:
            return f'header comment: expected {eh!r}, loaded {gh!r}'
        if len(ee) != len(ge):
            return f'number of entries: expected {len(ee)}, loaded {len(ge)}'
        for i, (a, b) in enumerate(zip(ee, ge)):
            for k, x, y in zip(G.FIELDS, a, b):
                if x != y:
                    return f'entry {i} field {k}: expected {x!r}, loaded {y!r}'
    want_tr = [expected_translated(e) for e in cat['entries']]
    if res.get('translated') != want_tr:
        return f'translated(): {res.get("translated")}, expected {want_tr}'
    if not res.get('intkeys', True):
        return 'msgstr_plural has a non-int key'
    if res.get('stderr'):
        return 'stderr: ' + res['stderr'][:200]
    return None

def P_tuple_json(t):
    import po_common
    return po_common.tuple_json(t)

def sequence_replay(P, seq, idx, observed, kind='catalog-differs-after-history'):
    """seq: [(charset, data, text)] loaded in this order in one process; the load at `idx` is wrong"""
    ops = [{'op': 'check', 'hex': d.hex()} for _cs, d, _t in seq[:idx + 1]]
    confirmed = None
    try:
        r = P.new_process(ops)
        confirmed = r[-1].get('canon')
    except Exception as exc:
        confirmed = 'could not re-run: ' + repr(exc)[:100]
    return {'kind': kind, 'history': True,
            'sequence': [{'file': f'f{i}.po', 'charset': cs, 'file_hex': d.hex(), 'file_text': t} for i, (cs, d, t) in enumerate(seq[:idx + 1])],
            'failing_index': idx, 'observed': observed,
            'alone': 'the last file, loaded alone in a fresh process, yields its catalog',
            'last_result_in_a_new_process': (confirmed or '')[:600],
            'replay': 'write the files of `sequence` (bytes.fromhex(file_hex)) as f0.po, f1.po, …; then ONE run of the tool: `i18nspector f0.po f1.po …` '
                      '(or, in one python process, Checker(path, options).check() for each IN THIS ORDER): the last file is not read as its catalog; '
                      'it is when it is the first (or only) file of the process. '
                      'Or: echo the list [{"op":"check","hex":file_hex}, …] | tools/checks/po_fresh.py run'}

def sequence_stream(chk, P, fresh, n_groups):
    """files in different charsets sharing textually identical escaped lines, loaded in every order, each order in its own pristine
    process: every load must yield the file's own catalog (C10's "for any charset", under repetition)"""
    rng = chk.rng
    import itertools
    stats = {'groups': 0, 'sequences': 0, 'loads': 0, 'charset_pairs': {}}
    lines, impls = [], []
    for _ in range(n_groups):
        g = G.gen_shared_group(rng)
        if not g:
            continue
        files = []
        try:
            for cs, cat, text in g:
                files.append((cs, cat, text, text.encode(cs)))
        except UnicodeError:
            continue
        stats['groups'] += 1
        key = '+'.join(sorted(f[0] for f in files))
        stats['charset_pairs'][key] = stats['charset_pairs'].get(key, 0) + 1
        perms = list(itertools.permutations(range(len(files))))
        if len(perms) > 2:
            perms = rng.sample(perms, 3)
        for perm in perms:
            seq = [files[i] for i in perm]
            res = fresh.run([{'op': 'check', 'hex': f[3].hex()} for f in seq])
            o, skip = P.oracle_for(b'\n'.join(f[3] for f in seq), 'ISO-8859-1', table_ok=False)   # multi-byte charsets: no exact decoder in the driver
            if not skip:
                lines.append(f'po loadseq {o} ' + ' '.join(f[3].hex() for f in seq))
                impls.append(' || '.join(r.get('canon', '?') for r in res))
            stats['sequences'] += 1
            stats['loads'] += len(seq)
            for idx, (f, r) in enumerate(zip(seq, res)):
                bad = judge_fresh(r, f[1])
                if bad is None:
                    continue
                alone = fresh.run([{'op': 'check', 'hex': f[3].hex()}])[0]
                if judge_fresh(alone, f[1]) is not None:
                    return {'kind': 'catalog-differs', 'charset': f[0], 'file_hex': f[3].hex(), 'file_text': f[2], 'observed': judge_fresh(alone, f[1]),
                            'expected': 'load(p) == c', 'replay': 'write bytes.fromhex(file_hex) to x.po; lib.check.Checker.patch_environment(); polib.pofile("x.po")'}, stats
                # history-dependent: the shortest prefix that still breaks it
                keep = list(range(idx))
                for drop in list(keep):
                    trial = [seq[j] for j in keep if j != drop] + [f]
                    rr = fresh.run([{'op': 'check', 'hex': x[3].hex()} for x in trial])
                    if judge_fresh(rr[-1], f[1]) is not None:
                        keep.remove(drop)
                short = [seq[j] for j in keep] + [f]
                return sequence_replay(P, [(x[0], x[3], x[2]) for x in short], len(short) - 1, bad), stats
    if lines and os.path.exists(common.driver_path()):
        try:
            chk.stream('po-load-sequence', lines, impls)
        except common.Infra:
            pass
    return None, stats

BOUNDARY_CHARSETS = ['UTF-8', 'UTF-8', 'ISO-8859-2', 'KOI8-R', 'CP1251', 'EUC-JP', 'SHIFT_JIS', 'GBK', 'ISO-8859-15', 'KOI8-RU']
HEADER_PREFIXES = ['tcomment', 'blank', 'ignored', 'obsolete', 'longline']
CHEAP_FOR_DRIVER = ('entries', 'longline', 'blank', 'ignored', 'obsolete')

def boundary_stream(chk, P):
    """size / offset boundary families: a late feature (the header's Content-Type line, an obsolete entry, a flag line, a
    charset-dependent escape) starting exactly at byte offset 2^k-1, 2^k, 2^k+1 (k = 10..20) behind comment blocks, blank lines, obsolete
    entries, one very long line, many entries or one very long string.  The model has no size limit anywhere (`detect_header_general`
    quantifies over any `pre`); a loader short-cut that looks only at the first N bytes or lines shows up here with a concrete file, and
    the failing size is minimised by bisection (the constructor is a function of the offset)."""
    rng = chk.rng
    T = chk.thorough
    usable = [c for c in BOUNDARY_CHARSETS if G.repertoire(c)]
    small = [x for x in G.BOUNDARY_SIZES if x <= (1 << 14) + 1]
    big = [x for x in G.BOUNDARY_SIZES if x > (1 << 14) + 1]
    sizes = G.BOUNDARY_SIZES if T else small + rng.sample(big, 3)
    cases = []
    for S in sizes:
        for Sh in ((S, S - 20) if (T or S <= (1 << 14) + 1) else (S,)):           # the declaration starting at S, and straddling it
            for _ in range(20):
                c = (rng.choice(usable), rng.choice(HEADER_PREFIXES), 'header', Sh, rng.randrange(1000))
                if G.boundary_file(*c) is not None:
                    cases.append(c); break
        cases += G.boundary_cases(rng, [S], usable, per_size=2 if T else 1)
    stats = {'files': 0, 'largest': 0, 'by_feature': {}, 'by_prefix': {}, 'sizes': len(sizes), 'bytes': 0, 'in_correspondence': 0}
    lines, impls = [], []
    cex = None
    for cs, prefix, feature, S, variant in cases:
        cat, text, info = G.boundary_file(cs, prefix, feature, S, variant)
        data = text.encode(cs)
        stats['files'] += 1
        stats['bytes'] += len(data)
        stats['largest'] = max(stats['largest'], len(data))
        stats['by_feature'][feature] = stats['by_feature'].get(feature, 0) + 1
        stats['by_prefix'][prefix] = stats['by_prefix'].get(prefix, 0) + 1
        r = check_roundtrip(P, data, cat, cs, text)
        if r is None:
            if len(data) <= (1 << 14) + 400 or (len(data) <= (1 << 16) + 400 and prefix in CHEAP_FOR_DRIVER):
                line, skip = P.load_line(data, table_ok=True)
                if not skip:
                    lines.append(line); impls.append(P.impl_load(data)); stats['in_correspondence'] += 1
            continue
        # minimise the offset: the smallest S for which this family still fails
        def fails(S2):
            b = G.boundary_file(cs, prefix, feature, S2, variant)
            if b is None:
                return None
            c2, t2, _i = b
            rr = check_roundtrip(P, t2.encode(cs), c2, cs, t2)
            if rr is not None:
                rr['_cat'] = c2
            return rr
        r['_cat'] = cat
        lo = None
        for S0 in (200, 300, 400, 600, 800, 1000):
            if S0 < S and fails(S0) is None and G.boundary_file(cs, prefix, feature, S0, variant) is not None:
                lo = S0; break
        best, bestS = r, S
        if lo is not None:
            hi = S
            while hi - lo > 1:
                mid = (lo + hi) // 2
                rr = fails(mid)
                if rr is None:
                    if G.boundary_file(cs, prefix, feature, mid, variant) is None:
                        lo = mid            # no file of that size in this family: treat as passing
                    else:
                        lo = mid
                else:
                    hi, best, bestS = mid, rr, mid
        cex = dict(best, boundary_family={'prefix': prefix, 'late_feature': feature, 'charset': cs, 'variant': variant,
                                          'first_failing_offset_found': S, 'minimal_failing_offset': bestS,
                                          'largest_passing_offset_below': lo,
                                          'meaning': f'the late feature ({feature}) starts at byte offset {bestS} of the file, behind {prefix} filler; '
                                                     f'the same file with the feature at offset {lo} loads to its catalog'})
        if len(cex.get('file_hex', '')) > 400000:
            cex.pop('file_text', None)
        break
    if lines and os.path.exists(common.driver_path()):
        try:
            chk.stream('po-load-boundary', lines, impls)
        except common.Infra:
            pass
    return cex, stats

def classify_history(chk, P, fresh, cex, last, bad, seq_cex, hist_index=None):
    """an operation that went wrong inside this long-running process (`last`, judged by `bad(result)`): does it go wrong in a fresh
    process too?  If not, the failure depends on what the process did before: shrink that history."""
    if cex is None:
        return cex
    pub = {k: v for k, v in cex.items() if not k.startswith('_')}
    alone = fresh.run([last])[0]
    if bad(alone):
        return dict(pub, fresh_process='fails in a fresh process too')
    if seq_cex is not None:
        return dict(seq_cex, also='the same kind of failure was first seen in the check process: ' + str(cex.get('observed'))[:300])
    prefix = list(P._history[:hist_index]) if hist_index is not None else list(P._history)
    short = P.shrink_history(fresh, prefix, last, bad)
    if short is None:
        return dict(pub, kind='catalog-differs-after-history', history=True,
                    fresh_process='the input gives the right result in a fresh process; replaying the recorded history of this check process did not reproduce the failure')
    ops = short + [last]
    try:
        confirmed = P.new_process(ops)[-1].get('canon', '')[:600]
    except Exception as exc:
        confirmed = 'could not re-run: ' + repr(exc)[:100]
    return {'kind': 'catalog-differs-after-history', 'history': True, 'charset': cex.get('charset'), 'observed': cex.get('observed'),
            'sequence': ops, 'failing_index': len(ops) - 1, 'history_length_before_shrinking': len(prefix), 'expected_last_result': cex.get('expected'),
            'alone': 'the last op, run alone in a fresh process, gives the right result', 'last_result_in_a_new_process': confirmed,
            'replay': 'echo the JSON list `sequence` | tools/checks/po_fresh.py run   (all ops in ONE new process, in this order; the last result is wrong; '
                      'load ops: write bytes.fromhex(hex) to a file and polib.pofile(path) after Checker.patch_environment())'}

TIE_EXPLANATION = (
    ' TIE BY TRANSLATION (Props/C10Tie.lean): lib/polib4us.py is regenerated from the current source on every run (tools/translate/polib4us2lean.py -> '
    'Generated/Polib4us.lean over the kit Model/PoPy.lean) — _wrap_octal_escape, polib_unescape with its inner unescape(match), the POEntry.flags setter, the patched '
    'translated(), Codecs._is_ignored_comment and the generator Codecs.open — and proved equal, for all strings / files / charsets / environments, to unescape, setFlags, '
    'translated, isIgnoredComment and decodeFile + preprocess of Model/Po.lean: generated_wrap_octal_escape_eq_model, generated_unescape_inner_eq_model, '
    'generated_polib_unescape_eq_model, generated_set_flags_eq_model, generated_translated_eq_model, generated_is_ignored_comment_eq_model, '
    'generated_codecs_open_eq_model; restated about the regenerated functions: unescape_spelling_generated, unescape_witnesses_generated, translated_iff_generated, '
    'codecs_open_keeps_body_generated, codecs_open_decode_error_generated (coverage.tie; twin streams po-unescape-generated, po-preprocess-generated, '
    'po-setflags-generated). polib\'s own _POFileParser and detect_encoding stay hand-modelled.')

def main():
    chk = common.Check('C10')
    import po_common as P
    proved = chk.prove('I18n.Props.C10', generated=('polib', 'polib4us'), extra_targets=())
    # the tie by translation: lib/polib4us.py regenerated from the current source and proved equal to the model's loader front end (Props/C10Tie.lean)
    tie_ok = common.prove_tie(chk, 'I18n.Props.C10Tie', ('polib4us',),
                              'polib_unescape / the flags setter / translated / Codecs._is_ignored_comment / Codecs.open regenerated from the current lib/polib4us.py '
                              'are no longer proved equal to unescape / setFlags / translated / isIgnoredComment / decodeFile + preprocess of Model/Po.lean '
                              '(generated_*_eq_model and the theorems restated about them)')
    problems = ' '.join(p for p in chk.lean.problems if not p.startswith('I18n.Props.C10Tie'))
    driver_ok = os.path.exists(common.driver_path()) and not any('untranslatable' in s for k, s in chk.lean.translation.items() if k != 'polib4us') \
        and 'Driver' not in problems and 'I18n.Model' not in problems and 'I18n.Generated' not in problems
    rng = chk.rng
    T = chk.thorough
    P.env()                               # installs the tool's extra codecs: the repertoires below need them
    charsets = G.usable_charsets()
    if 'patch_error' in P._env:
        chk.broken.append({'kind': 'environment', 'problem': 'Checker.patch_environment failed: ' + P._env['patch_error']})

    n_wf = 24000 if T else 2500
    n_mal = 60000 if T else 7000
    n_unit = 30000 if T else 4000
    wf = wellformed(rng, n_wf, charsets)
    disagree_files = []
    skipped = {}
    if driver_ok:
        # --- corpus + fixed-finding witnesses first
        datas = corpus() + [w for _k, w, _m in WITNESS_FIXED]
        lines = [P.load_line(d)[0] for d in datas]
        dis, _ = chk.stream('po-corpus', lines, [P.impl_load(d) for d in datas])
        disagree_files += [datas[i] for i in dis]
        # --- unit streams
        ui = unescape_inputs(rng, n_unit)
        lines, impls = [], []
        for enc, s in ui:
            line, skip = P.unescape_line(enc, s)
            if skip:
                skipped[skip] = skipped.get(skip, 0) + 1
                continue
            r, _stderr, _exc = P.impl_unescape(enc, s)
            lines.append(line); impls.append(r)
        dis, _ = chk.stream('po-unescape', lines, impls)
        if tie_ok:      # the twins: the same inputs through the functions REGENERATED from lib/polib4us.py (Generated.Polib4us)
            chk.stream('po-unescape-generated', [l.replace('po unescape ', 'po gunescape ', 1) for l in lines], impls)
        pi = preprocess_inputs(rng, n_unit // 2)
        pre_impls = [P.impl_preprocess(t) for t in pi]
        chk.stream('po-preprocess', [f'po preprocess {P.hexchars(t)}' for t in pi], pre_impls)
        if tie_ok:
            chk.stream('po-preprocess-generated', [f'po gpreprocess {P.hexchars(t)}' for t in pi], pre_impls)
        di = detect_inputs(rng, n_unit // 2)
        lines, impls = [], []
        for d in di:
            o, skip = P.oracle_for(d)
            if skip == 'lookup-raises':
                continue
            lines.append(f'po detect {o} {d.hex() or "-"}'); impls.append(P.impl_detect(d))
        chk.stream('po-detect', lines, impls)
        fi = flagline_inputs(rng, n_unit // 4)
        fitems = [[l[3:]] for l in fi] + [[l[3:], ' x ,y\t'] for l in fi[:200]]
        fitems = [it for it in fitems if all(x and '\n' not in x for x in it)]
        set_impls = [P.impl_setflags(it) for it in fitems]
        chk.stream('po-setflags', ['po setflags ' + ' '.join(P.hexchars(x) for x in it) for it in fitems], set_impls)
        if tie_ok:
            chk.stream('po-setflags-generated', ['po gsetflags ' + ' '.join(P.hexchars(x) for x in it) for it in fitems], set_impls)
        fdatas = [(l + '\nmsgid "a"\nmsgstr "b"\n').encode('UTF-8') for l in fi]
        fdatas = [b'msgid ""\nmsgstr "Content-Type: text/plain; charset=UTF-8\\n"\n\n' + d for d in fdatas]
        dis, _ = chk.stream('po-flags', [P.load_line(d)[0] for d in fdatas], [P.impl_load(d) for d in fdatas])
        disagree_files += [fdatas[i] for i in dis[:20]]
        # --- end to end: spellings of catalogs
        lines, impls, kept = [], [], []
        for data, cat, cs, text in wf:
            line, skip = P.load_line(data, table_ok=True)
            if skip:
                skipped[skip] = skipped.get(skip, 0) + 1
                continue
            lines.append(line); impls.append(P.impl_load(data)); kept.append(data)
        dis, outs = chk.stream('po-load-spellings', lines, impls)
        disagree_files += [kept[i] for i in dis[:20]]
        chk.note_cases({o for o in outs if o.startswith('ok') and ' n=0' not in o})
        # --- end to end: malformed and arbitrary files, both encoding arguments
        lines, impls, kept = [], [], []
        for data, enc in malformed(rng, n_mal):
            line, skip = P.load_line(data, enc)
            if skip:
                skipped[skip] = skipped.get(skip, 0) + 1
                continue
            lines.append(line); impls.append(P.impl_load(data, enc)); kept.append(data)
        dis, outs = chk.stream('po-load-malformed', lines, impls)
        disagree_files += [kept[i] for i in dis[:20]]
        chk.note_cases({o for o in outs if o.startswith('ok') and ' n=0' not in o})
        # --- Checker.check: the ISO-8859-1 retry
        lines, impls = [], []
        retry = []
        for data, _cat, cs, _text in wf[:n_mal // 16]:
            # a well-formed file read under the wrong declaration: undecodable, so the ISO-8859-1 retry is taken
            if cs not in ('UTF-8', 'ASCII') and cs not in NONCOMPAT and not data.isascii():
                retry.append((re.sub(rb'charset=[\w\-:.]+', b'charset=' + rng.choice([b'UTF-8', b'ASCII', b'EUC-JP']), data), None))
        for data, _enc in malformed(rng, n_mal // 8) + retry:
            line, skip = P.check_line(data)
            if skip:
                continue
            o = P.impl_check(data)
            if o.endswith('err syntax'):
                continue              # the tag text is C15/C02 territory; the syntax classes are compared by po-load-malformed
            lines.append(line); impls.append(o)
        chk.stream('po-check', lines, impls)
    else:
        chk.broken.append({'kind': 'correspondence', 'stream': 'po-*', 'problem': 'driver could not be rebuilt from the regenerated model'})
    chk.coverage['skipped'] = skipped

    # ------------------------------------------------------------------ falsifier: the property on the real code
    mult = 4 if chk.broken else 1
    cex = None
    stats = {'spellings': 0, 'charsets': {}, 'entries': 0, 'obsolete': 0, 'plural': 0, 'with_previous': 0, 'unescape_cases': 0, 'checker_runs': 0, 'disagreeing_replayed': len(disagree_files)}
    # witnesses of the repaired defects
    for key, w, mode in WITNESS_FIXED:
        kind, v, stderr = P.real_load(w)
        bad = None
        if mode == 'entries' and not (kind == 'ok' and [(e.msgid, e.msgstr) for e in v] == [('a', 'b')]):
            bad = 'the last message is not loaded'
        if mode == 'stderr' and stderr:
            bad = 'stderr: ' + stderr[:200]
        if bad:
            chk.violation('a repaired C10 defect is back: ' + bad, {'kind': key, 'file_hex': w.hex(), 'observed': bad}, key=key)
    open_state = {}
    for key, cut, uncut, want in WITNESS_OPEN:
        k1, v1, _ = P.real_load(cut)
        k2, v2, _ = P.real_load(uncut)
        ok2 = k2 == 'ok' and [e.msgid for e in v2][-1:] == [want]
        ok1 = k1 == 'ok' and [e.msgid for e in v1][-1:] == [want]
        open_state[key] = 'still-failing' if (ok2 and not ok1) else ('resolved' if (ok1 and ok2) else 'other')
        if not ok1:
            chk.violation('a continuation cut between the escaped bytes of one character is rejected',
                          {'kind': key, 'file_hex': cut.hex(), 'file_text': cut.decode('ASCII'), 'observed': P.canon_error(v1) if k1 != 'ok' else 'loaded differently',
                           'expected': 'msgid U+0105, as for the uncut spelling'}, key=key)
        elif ok1 and ok2:
            print(f'KNOWN-FINDING-RESOLVED: property=C10 {key}: the real loader now accepts the witness; the model still rejects it')
    key, w, want = WITNESS_DETECT
    k1, v1, _ = P.real_load(w)
    ok1 = k1 == 'ok' and [e.msgid for e in v1][-1:] == [want]
    open_state[key] = 'resolved' if ok1 else 'still-failing'
    if not ok1:
        chk.violation('the charset of a comment line that matches detect_encoding\'s pattern overrides the header\'s',
                      {'kind': key, 'file_hex': w.hex(), 'file_text': w.decode('UTF-8'),
                       'observed': repr([e.msgid for e in v1]) if k1 == 'ok' else P.canon_error(v1), 'expected': repr(['', want])}, key=key)
    else:
        print(f'KNOWN-FINDING-RESOLVED: property=C10 {key}: the real loader now reads the witness in the charset its header declares')
    chk.coverage['open_findings'] = open_state
    # ------------------------------------------------------------------ history independence: sequences of loads in one process
    fresh = P.Fresh()
    # C10_NO_SEQ=1 (self-test of the generic path only): skip the deliberate sequences, so that a history-dependent failure has to be
    # recognised and shrunk from the recorded history of this process
    seq_cex, seq_stats = sequence_stream(chk, P, fresh, 0 if os.environ.get('C10_NO_SEQ') else (600 if T else 60) * mult)
    chk.evaluations += seq_stats['loads']
    chk.coverage['sequence_stream'] = dict(seq_stats, found=seq_cex is not None)
    # correspondence disagreements: is the real code's answer for that file the same in a fresh process?
    for d in disagree_files[:6]:
        if seq_cex is not None:
            break
        now = P.impl_load(d)
        alone = fresh.run([{'op': 'load', 'hex': d.hex(), 'enc': None}])[0].get('canon')
        if now != alone:
            cex = classify_history(chk, P, fresh, {'kind': 'catalog-differs-after-history', 'file_hex': d.hex(), 'observed': now[:400], 'expected': (alone or '')[:400]},
                                   {'op': 'load', 'hex': d.hex(), 'enc': None}, lambda r: r.get('canon') != alone, None, len(P._history) - 1)
            break
    # ------------------------------------------------------------------ size / offset boundaries
    if cex is None:
        cex, bstats = boundary_stream(chk, P)
        chk.evaluations += bstats['files']
        chk.coverage['boundary_stream'] = dict(bstats, found=cex is not None)
        if cex is not None:
            bf, bcat = cex.get('boundary_family'), cex.get('_cat')
            cex = classify_history(chk, P, fresh, cex, {'op': 'load', 'hex': cex['file_hex'], 'enc': None},
                                   lambda r, bcat=bcat: judge_fresh(r, bcat) is not None, seq_cex, cex.get('_hist_index'))
            if bf and 'boundary_family' not in cex:
                cex['boundary_family'] = bf
    extra_wf = wf if not chk.broken else wf + wellformed(rng, n_wf * (mult - 1), charsets)
    if T and not chk.broken:
        extra_wf = wf + wellformed(rng, n_wf, charsets)
    for data, cat, cs, text in (extra_wf if cex is None else []):
        stats['spellings'] += 1
        stats['charsets'][cs] = stats['charsets'].get(cs, 0) + 1
        stats['entries'] += len(cat['entries'])
        stats['obsolete'] += sum(1 for e in cat['entries'] if e['obsolete'])
        stats['plural'] += sum(1 for e in cat['entries'] if e['msgid_plural'] is not None)
        stats['with_previous'] += sum(1 for e in cat['entries'] if e['previous_msgid'] is not None)
        cex = check_roundtrip(P, data, cat, cs, text)
        if cex:
            cex = classify_history(chk, P, fresh, cex, {'op': 'load', 'hex': data.hex(), 'enc': None},
                                   lambda r, cat=cat: judge_fresh(r, cat) is not None, seq_cex, cex.get('_hist_index'))
            if not cex.get('history'):
                try:
                    cex = shrink(P, rng, cex, cat, cs)
                except Exception:
                    pass
            break
    if not cex:
        cases = spelled_strings(rng, (60000 if T else 8000) * mult)
        stats['unescape_cases'] = len(cases)
        cex = falsify_unescape(P, cases)
        if cex:
            want = 'ok ' + P.hexchars(cex['text'])
            cex = classify_history(chk, P, fresh, cex, {'op': 'unescape', 'enc': cex['charset'], 's': cex['spelling']},
                                   lambda r, want=want: r.get('canon') != want or bool(r.get('stderr')), seq_cex, None)
    if not cex:
        sub = wf[:(3000 if T else 300) * mult]
        stats['checker_runs'] = len(sub)
        cex = falsify_checker(P, sub)
    if not cex and seq_cex is not None:
        cex = seq_cex
    if cex is not None:
        cex = {k: v for k, v in cex.items() if not k.startswith('_')}
    chk.coverage['fresh_process_runs'] = fresh.requests
    fresh.close()
    chk.evaluations += stats['spellings'] + stats['unescape_cases'] + stats['checker_runs']
    chk.coverage['falsifier'] = dict(stats, found=cex is not None)
    if cex is not None:
        chk.violation('a PO spelling of a catalog does not load to that catalog', cex, key='C10:' + cex['kind'])
    elif chk.broken:
        chk.violation('proof obligation or correspondence no longer checks', {'broken': chk.broken}, no_input=True)
    chk.finish(
        level='proof',
        rule='catalogs (0-6 entries: contexts, plurals with 1-10 forms, obsolete, previous msgctxt/msgid/msgid_plural, 0-3 flags incl. empty and odd ones, 0-4 references with and without '
             'line numbers, extracted and translator comments, file header comment; strings over ASCII text, hex/octal digits, the nine simple escapes, raw control characters and the '
             'charset\'s repertoire) x 25 charsets (UTF-8, ISO-8859-1/2/5/7/15, KOI8-R/U, CP1251/1252/437, TIS-620, EUC-JP, SHIFT_JIS, GB2312, GBK, GB18030, BIG5, EUC-KR, the tool\'s own '
             'KOI8-RU, GEORGIAN-PS, VISCII, EUC-TW, KOI8-T, ASCII; plus UTF-16/UTF-7/CP037/UTF-32 declared on ASCII files) x spellings (per character: raw, simple escape, octal 1-3 digits, '
             'hex 1-2 digits either case, escaped bytes of the charset; cuts anywhere between characters, empty segments, blank lines, ignored comment forms, atypical comments, padding, '
             'final newline or not, trailing comments); malformed: one/two token-aware edits of such files, token soup, random bytes, encoding argument None/ISO-8859-1/UTF-8/ASCII; '
             'size/offset boundary families: a late feature (header Content-Type line, obsolete entry, flag line, charset-dependent escape) at byte offsets 2^k-1, 2^k, 2^k+1 '
             '(k=10..20; sampled in quick) behind comment blocks, blank/ignored lines, obsolete entries, one very long line, many entries, one very long string; '
             'sequences of files in different charsets sharing escaped lines, every order, one process per order; '
             'non-trivial = distinct accepted outcome with at least one entry',
        trusted=['Lean 4.33 kernel', 'axioms: propext, Classical.choice, Quot.sound only',
                 'tools/translate/polib2lean.py (dumps the transition table of a live _POFileParser after install_patches(), the keyword tables, regex texts, interpreter character classes)',
                 'polib 1.2.0 _POFileParser.parse/process/handle_* is third-party code modelled by hand from its source: tied by the po-load-* streams only (transition table regenerated)',
                 'the scanners standing for _escapes_re, _short_x_escape_re, _big_octal_escape_re, _iterlines, _atypical_comment, detect_encoding\'s PATTERN and the unescaped-quote test are '
                 'hand-written: regex texts pinned (regex_pins), behaviour tied by po-unescape / po-preprocess / po-detect / po-load-*',
                 'Python codecs are a parameter (Env): the driver implements ASCII, ISO-8859-1, UTF-8, single-byte charmaps read from Python, and multi-byte codecs as a table over the '
                 'generator\'s repertoire (well-formed stream only); files needing another family are skipped and counted',
                 'Spec.PoSpelling is my reading of the PO syntax (gettext manual, po-lex.c): no msgfmt/msgunfmt is installed to compare with',
                 'tools/translate/polib4us2lean.py + tools/translate/pytr (the translated subset of lib/polib4us.py) and the kit Model/PoPy.lean: the five regexes '
                 'pinned by pattern text and standing for the model\'s scanners on both sides; on a run of escapes the two fix-up substitutions act escape by escape and '
                 'literal_eval yields each escape\'s byte; the stack-frame hack is the parameter file_encoding; a generator is the list it yields',
                 'the correspondence harness (tools/checks/po_common.py, Driver/Po.lean)'],
        explanation=EXPLANATION + TIE_EXPLANATION)

EXPLANATION = (
    'Proved in Lean (Props/C10.lean; all strings, all spellings, every codec environment satisfying CodecOk = ASCII-transparent charset that decodes what it encodes): '
    'unescape_spelling (every per-character spelling: raw, the nine letter escapes, octal 1-3 digits <= \\377, hex 1-2 digits of either case, non-ASCII characters as escaped bytes '
    'of the charset -> exactly the string; excluded and stated: short octal escape followed by an octal digit, hex escape followed by a hex digit); flags_split + '
    'flag_strip_set_is_space (comma-separated trimmed items in order, duplicates and empty items kept; the patched setter changes nothing); load_spells_partial (every CatalogSp: '
    'header comment, per entry any interleaving of # / #. / #: / #, / #| lines with #| "..." continuations and noise lines, msgctxt? msgid (msgstr | msgid_plural msgstr[0..N<=9]) '
    'behind #~ or not, cuts anywhere between characters, padding -> polib\'s line loop yields exactly header comment and per entry msgctxt, msgid, msgid_plural, msgstr, indexed '
    'plurals, flags, obsolete, previous_*, occurrences, extracted and translator comments, in order); comments_attributed; codecs_open_keeps_body, phys_lines (Codecs.open); '
    'load_render_partial (END TO END from Spec.render: for every Valid FileSp and every ASCII-compatible charset satisfying CodecOk that can encode its text, polib.pofile(path, encoding) '
    'on the rendered BYTES yields the catalog - no hypothesis about the file), load_render_detected_partial + detect_header_general (charset detected; header forms with any parameters in which '
    '" charset=" cannot start), load_sequence_independent + load_after_any_history (a list of files in one process = the list of single loads); '
    'load_spells_file_partial (decode + Codecs.open + line loop composed for every CatalogSp: hypotheses only about the file - it decodes, its lines are body ++ held-back tail, body '
    'normalises to the spelling) with codecs_open_holds_trailing (noise and first-column comments are held back); translated_iff; regex_pins; witnesses of the repaired '
    'defects (trailing_ignored_comment_witness for ed9c45c, unescape_octal_fix for 9de4551). REFUTED by kernel-evaluated witnesses and recorded as OPEN findings, replayed on the real '
    'loader each run: load_spells_refuted (a continuation cut between the escaped bytes of one character is a syntax error), detect_first_match_refuted (the charset of the first line '
    'matching polib\'s detect_encoding pattern wins, e.g. a comment). detect_header + load_spells_detected_partial: polib.pofile(path) itself (detection, decode, Codecs.open, line loop) yields the '
    'catalog when the first line matching polib\'s pattern is the header\'s "Content-Type: text/plain; charset=NAME line. OUTSTANDING: the byte-level precondition of charset detection (first matching byte line = the header\'s '
    'Content-Type line) cannot follow from the spelling alone; FileSp takes comments in normal form (#text is normalised by Codecs.open: load_spells_file_partial); linenum is projected away. '
    'History independence is tied by po-load-sequence and the sequence falsifier (fresh-process re-run + history shrinking). polib itself is third-party code '
    'modelled by hand: its tie is the correspondence (transition table regenerated each run). Excluded spellings: msgstr[N] N>=10, octal above \\377, two string tokens on one line, '
    'translator comments of the first entry (they are the header comment).')

if __name__ == '__main__':
    common.main_wrapper(main)
