"""Run the real command-line tool on files (subprocess), and helpers shared by C01/C03/C17."""
import concurrent.futures, os, re, subprocess, sys, tempfile, shutil
sys.path.insert(0, os.path.join(os.path.dirname(os.path.abspath(__file__)), '..'))
import common

LINE_RE = re.compile(r'\A[EWIP]: [^\n]*\Z')

def cli_cmd():
    return ['/venv/bin/python', os.path.join(common.REPO, 'i18nspector')]

def run_cli(args, cwd, hashseed='0', timeout=120, extra_env=None):
    env = dict(os.environ)
    env['PYTHONHASHSEED'] = str(hashseed)
    env['PYTHONDONTWRITEBYTECODE'] = '1'
    env['XDG_CACHE_HOME'] = os.path.join(cwd, '.cache')
    env['LC_ALL'] = 'C.UTF-8'
    env.pop('TERM', None)
    if extra_env:
        env.update(extra_env)
    try:
        p = subprocess.run(cli_cmd() + list(args), cwd=cwd, env=env, capture_output=True, timeout=timeout)
    except subprocess.TimeoutExpired:
        return {'rc': None, 'stdout': '', 'stderr': 'TIMEOUT', 'timeout': True}
    return {'rc': p.returncode, 'stdout': p.stdout.decode('utf-8', 'backslashreplace'), 'stderr': p.stderr.decode('utf-8', 'backslashreplace'), 'timeout': False}

def parallel(fn, items, workers=14):
    with concurrent.futures.ThreadPoolExecutor(max_workers=workers) as ex:
        return list(ex.map(fn, items))

class Workdir:
    def __enter__(self):
        self.path = tempfile.mkdtemp(prefix='i18n-verif-e2e.')
        return self
    def __exit__(self, *a):
        shutil.rmtree(self.path, ignore_errors=True)
    def write(self, name, data):
        p = os.path.join(self.path, name)
        os.makedirs(os.path.dirname(p), exist_ok=True)
        with open(p, 'wb') as f:
            f.write(data if isinstance(data, bytes) else data.encode('utf-8', 'surrogateescape'))
        return p
