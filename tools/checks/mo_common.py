"""Correspondence streams and real-code falsifiers shared by C08 and C09 (the MO loader)."""
import codecs, importlib, os, re, shutil, struct, sys, tempfile
sys.path.insert(0, os.path.join(os.path.dirname(os.path.abspath(__file__)), '..'))
import common
from gen import mo as G

common.setup_repo_import()

_tmp = tempfile.mkdtemp(prefix='i18n-verif-mo.', dir='/dev/shm' if os.path.isdir('/dev/shm') else None)
import atexit
atexit.register(lambda: shutil.rmtree(_tmp, ignore_errors=True))
_path = os.path.join(_tmp, 'x.mo')

_env = {}
def env():
    """the real modules, with the tool's environment set up the way the CLI does (extra codecs, polib patches)"""
    if not _env:
        from lib import check as lc, moparser, encodings as le, cli, polib4us
        import polib
        try:
            lc.Checker.patch_environment()
        except Exception as exc:          # a modified tree may break this; the streams then report crashes
            _env['patch_error'] = repr(exc)
        _env.update(moparser=moparser, encodings=le, check=lc, cli=cli, polib=polib)
    return _env

# ----------------------------------------------------------------------------- canonical forms

MESSAGES = {
    'truncated file': 'truncated',
    'unexpected magic': 'magic',
    'msgid is not null-terminated': 'msgid-not-terminated',
    'unexpected null byte in msgid': 'msgid-nul',
    'msgstr is not null-terminated': 'msgstr-not-terminated',
    'unexpected null byte in msgstr': 'msgstr-nul',
    'duplicate message definition': 'duplicate',
    'messages are not sorted': 'not-sorted',
}

def syn_class(msg):
    if msg in MESSAGES:
        return MESSAGES[msg]
    m = re.fullmatch(r'unexpected major revision number: ([0-9]+)', msg)
    if m:
        return 'major:' + str(int(m.group(1)))
    return 'other:' + msg.replace(' ', '_')

def hexchars(s):
    return '.'.join(format(ord(c), 'x') for c in s) if s else '-'

def canon_entry(e):
    c = '~' if e.msgctxt is None else hexchars(e.msgctxt)
    if e.msgstr_plural:
        d = e.msgstr_plural
        forms = [d[k] for k in sorted(d)]
        extra = '' if sorted(d) == list(range(len(d))) else ' keys=' + repr(sorted(d))
        return f'i={hexchars(e.msgid)} c={c} p={hexchars(e.msgid_plural)} f={"/".join(hexchars(f) for f in forms)}{extra}'
    return f'i={hexchars(e.msgid)} c={c} s={hexchars(e.msgstr)}'

def canon_file(f):
    ents = list(f)
    return f'hidden={1 if f.possible_hidden_strings else 0} n={len(ents)}' + ''.join(' | ' + canon_entry(e) for e in ents)

def real_parse(data, encoding=None):
    """→ ('ok', MOFile) | ('syntax', message) | ('decode', exc) | ('crash', exc)"""
    M = env()['moparser']
    with open(_path, 'wb') as f:
        f.write(data)
    try:
        inst = M.Parser(_path, encoding=encoding).parse()
    except M.SyntaxError as exc:
        return 'syntax', str(exc)
    except UnicodeDecodeError as exc:
        return 'decode', exc
    except BaseException as exc:      # anything else: the loader failed "in another way"
        if isinstance(exc, (KeyboardInterrupt, SystemExit)):
            raise
        return 'crash', exc
    return 'ok', inst

def impl_parse(data, encoding=None):
    kind, v = real_parse(data, encoding)
    try:
        if kind == 'ok':
            return 'ok ' + canon_file(v)
    except Exception as exc:
        return 'err crash-canon ' + type(exc).__name__
    if kind == 'syntax':
        return 'err syntax ' + syn_class(v)
    if kind == 'decode':
        return 'err decode'
    return 'err crash ' + type(v).__name__

# ----------------------------------------------------------------------------- codec oracle (asked of Python directly)

_kind_cache = {}
def codec_kind(name):
    """'a' | 'l' | 'u' | 'm<table>' | None (a codec family the driver does not implement) for an ASCII-compatible name"""
    if name in _kind_cache:
        return _kind_cache[name]
    k = None
    try:
        ci = codecs.lookup(name)
        if ci.name == 'ascii':
            k = 'a'
        elif ci.name == 'iso8859-1':
            k = 'l'
        elif ci.name == 'utf-8':
            k = 'u'
        else:
            table = None
            try:
                mod = importlib.import_module('encodings.' + ci.name.replace('-', '_'))
                table = getattr(mod, 'decoding_table', None)
            except ImportError:
                pass
            if table is None and getattr(ci.decode, '__closure__', None):
                for cell in ci.decode.__closure__:          # lib.encodings.charmap_encoding
                    if isinstance(cell.cell_contents, str) and len(cell.cell_contents) == 256:
                        table = cell.cell_contents
            if isinstance(table, str) and len(table) == 256:
                k = 'm' + '.'.join('x' if ch == '\ufffe' else format(ord(ch), 'x') for ch in table)
    except Exception:
        k = None
    _kind_cache[name] = k
    return k

_compat_cache = {}
def is_compat(name):
    if name not in _compat_cache:
        try:
            _compat_cache[name] = bool(env()['encodings'].is_ascii_compatible_encoding(name))
        except Exception:
            _compat_cache[name] = False
    return _compat_cache[name]

_cand_re = re.compile(b'(?=charset=([^ \t\n]+))')
def candidate_names(data):
    """every string `re.search(b'charset=([^ \\t\\n]+)', view[o:o+l])` could return for some slice of the file"""
    names = set()
    for m in _cand_re.finditer(data):
        run = m.group(1)[:48]
        for k in range(1, len(run) + 1):
            names.add(run[:k])
    return names

def oracle_for(data, encoding=None):
    """→ (oracle string, skip) ; skip = some ASCII-compatible candidate uses a codec family the driver lacks"""
    names = {n for n in candidate_names(data) if all(b < 128 for b in n)}
    if encoding is not None:
        names.add(encoding.encode('ASCII'))
    names.add(b'ASCII')
    items = []
    skip = False
    for n in sorted(names):
        s = n.decode('ASCII')
        if is_compat(s):
            k = codec_kind(s)
            if k is None:
                skip = True
            else:
                items.append(n.hex() + ':' + k)
    return (','.join(items) or '-'), skip

def parse_line(data, encoding=None):
    o, skip = oracle_for(data, encoding)
    enc = '-' if encoding is None else encoding.encode('ASCII').hex()
    return f'mo parse {enc} {data.hex() or "-"} {o}', skip

# ----------------------------------------------------------------------------- Checker.check

class _Stop(Exception):
    pass

def impl_check(data):
    """run the real Checker.check on the file; canonical: tags emitted while loading + whether it went on"""
    E = env()
    import argparse
    with open(_path, 'wb') as f:
        f.write(data)
    tags = []
    state = {'loaded': 0}
    class C(E['check'].Checker):
        def tag(self, tagname, *extra):
            tags.append((tagname, extra))
        def check_comments(self, ctx):      # first call after the loading phase
            state['loaded'] = 1
            state['n_load_tags'] = len(tags)
            raise _Stop
    opts = argparse.Namespace(fake_root=None, file_type=None, language=None, unpack_deb=False, ignore_tags=set())
    try:
        C(_path, options=opts).check()
    except _Stop:
        pass
    except BaseException as exc:
        if isinstance(exc, (KeyboardInterrupt, SystemExit)):
            raise
        if isinstance(exc, UnicodeDecodeError):
            return 'uncaught err decode tags=' + (canon_tags(tags) or '-')
        return f'uncaught err crash {type(exc).__name__} tags=' + (canon_tags(tags) or '-')
    return f'loaded={state["loaded"]} tags={canon_tags(tags) or "-"}'

def canon_tags(tags):
    out = []
    for name, extra in tags:
        if name == 'invalid-mo-file':
            out.append('invalid-mo-file:' + syn_class(str(extra[0])) if extra else 'invalid-mo-file:?')
        else:
            out.append(name)
    return ','.join(out)

def check_line(data):
    o, skip = oracle_for(data, 'ISO-8859-1')
    return f'mo check {data.hex() or "-"} {o}', skip

# ----------------------------------------------------------------------------- independent reference reader
# Written from the GNU gettext manual ("The Format of GNU MO Files") and gmo.h; shares no code with /repo.

class Invalid(Exception):
    pass

def ref_read_raw(data):
    """→ (hidden, [(key, value)]) or raises Invalid.  Reads only what the format requires a reader to read."""
    def u32(at):
        if at + 4 > len(data):
            raise Invalid('word beyond end')
        return int.from_bytes(data[at:at + 4], order)
    if data[:4] == b'\xde\x12\x04\x95':
        order = 'little'
    elif data[:4] == b'\x95\x04\x12\xde':
        order = 'big'
    else:
        raise Invalid('magic')
    rev = u32(4)
    if rev >> 16 > 1:
        raise Invalid('major')
    minor = rev & 0xffff
    n, O, T = u32(8), u32(12), u32(16)
    hidden = minor > 1 or (minor == 1 and u32(36) > 0)
    def string(desc):
        length, off = u32(desc), u32(desc + 4)
        if off + length >= len(data):
            raise Invalid('string beyond end')
        if data[off + length] != 0:
            raise Invalid('no terminator')
        return data[off:off + length]
    out = []
    prev = None
    for i in range(n):
        k, v = string(O + 8 * i), string(T + 8 * i)
        if k.count(b'\0') > 1 or (b'\0' not in k and b'\0' in v):
            raise Invalid('NUL structure')
        k0 = k.split(b'\0')[0]
        if prev is not None and k0 < prev:
            raise Invalid('order')
        prev = k0
        out.append((k, v))
    return hidden, out

def ref_entry(k, v):
    """(ctxt, msgid, plural, forms) at byte level: key = [ctxt EOT] msgid [NUL plural]"""
    k0, _, pl = k.partition(b'\0')
    plural = pl if b'\0' in k else None
    if b'\x04' in k0:
        ctxt, _, msgid = k0.partition(b'\x04')
    else:
        ctxt, msgid = None, k0
    forms = v.split(b'\0') if plural is not None else [v]
    return ctxt, msgid, plural, forms

def ref_charset(raw):
    """name after the first 'charset=' that is followed by a non-blank, in the value of a leading empty-key entry"""
    if not raw or raw[0][0].split(b'\0')[0] != b'':
        return None
    v = raw[0][1]
    p = 0
    while True:
        p = v.find(b'charset=', p)
        if p < 0:
            return None
        q = p + 8
        while q < len(v) and v[q] not in b' \t\n':
            q += 1
        if q > p + 8:
            return v[p + 8:q]
        p += 1

def ref_compat(name):
    """True / False / None (undecided: a codec name the harness has no independent opinion about)"""
    try:
        s = name.decode('ASCII')
    except UnicodeError:
        return False
    if s in G.COMPAT:
        return True
    if s in G.NONCOMPAT or s in G.UNKNOWN:
        return False
    try:
        codecs.lookup(s)
    except Exception:       # no such codec: cannot be compatible
        return False
    return None

def ref_decode(data, swap_ctxt=False):
    """→ ('invalid',) | ('decode',) | ('undecided',) | ('ok', hidden, [(ctxt, msgid, plural, forms) as str])"""
    try:
        hidden, raw = ref_read_raw(data)
    except Invalid as exc:
        return ('invalid', str(exc))
    name = ref_charset(raw)
    cs = 'ASCII'
    if name is not None:
        c = ref_compat(name)
        if c is None:
            return ('undecided',)
        if c:
            cs = name.decode('ASCII')
    out = []
    try:
        for k, v in raw:
            ctxt, msgid, plural, forms = ref_entry(k, v)
            if swap_ctxt and ctxt is not None:
                ctxt, msgid = msgid, ctxt
            out.append((None if ctxt is None else ctxt.decode(cs), msgid.decode(cs),
                        None if plural is None else plural.decode(cs), [f.decode(cs) for f in forms]))
    except UnicodeDecodeError:
        return ('decode',)
    return ('ok', hidden, out)

def entries_of(inst):
    out = []
    for e in inst:
        if e.msgstr_plural:
            d = e.msgstr_plural
            out.append((e.msgctxt, e.msgid, e.msgid_plural, [d[k] for k in sorted(d)]))
        else:
            out.append((e.msgctxt, e.msgid, None, [e.msgstr]))
    return out

def compare_with_reference(data):
    """the property's own statement on one file.  → None (fine) | dict (a failing input) ; dict['kind'] names the class"""
    kind, v = real_parse(data)
    if kind == 'crash':
        return {'kind': 'other-exception', 'exception': repr(v)}
    ref = ref_decode(data)
    if kind == 'syntax':
        if ref[0] in ('ok', 'decode', 'undecided'):
            # a decode error in an early entry legitimately precedes nothing; but a well-formed file must not be rejected
            return {'kind': 'well-formed-file-rejected', 'message': v}
        return None
    if kind == 'decode':
        if ref[0] == 'ok':
            return {'kind': 'decodable-file-reported-undecodable'}
        return None         # ref invalid + impl decode: the decode error of an earlier entry came first (checked at the Checker level)
    # kind == ok
    try:
        got = (bool(v.possible_hidden_strings), entries_of(v))
    except Exception as exc:
        return {'kind': 'other-exception', 'exception': repr(exc)}
    if ref[0] == 'undecided':
        return None
    if ref[0] == 'invalid':
        return {'kind': 'malformed-file-accepted', 'reference': ref[1], 'got': repr(got)[:400]}
    if ref[0] == 'decode':
        return {'kind': 'undecodable-text-accepted', 'got': repr(got)[:400]}
    exp = (ref[1], ref[2])
    if got == exp:
        return None
    if got[0] != exp[0]:
        return {'kind': 'hidden-flag', 'got': got[0], 'expected': exp[0]}
    sw = ref_decode(data, swap_ctxt=True)
    if sw[0] == 'ok' and got == (sw[1], sw[2]):
        return {'kind': 'ctxt-swap', 'got': repr(got[1])[:400], 'expected': repr(exp[1])[:400]}
    return {'kind': 'entries-differ', 'got': repr(got[1])[:600], 'expected': repr(exp[1])[:600]}

# ----------------------------------------------------------------------------- input families

def seed_files():
    out = []
    for d in ('tests/blackbox_tests', 'tests/fuzzing/mo-parser'):
        p = os.path.join(common.REPO, d)
        if os.path.isdir(p):
            for f in sorted(os.listdir(p)):
                if f.endswith(('.mo', '.gmo')):
                    try:
                        out.append(open(os.path.join(p, f), 'rb').read())
                    except OSError:
                        pass
    return [d for d in out if len(d) < 20000]

def wellformed_files(rng, count, simple=False, contexts=True, bad_bytes=0.0):
    """(data, catalog, layout, charset, header style) — legal files of random catalogs in random layouts"""
    out = []
    for _ in range(count):
        charset = rng.choice(G.COMPAT * 3 + G.NONCOMPAT + G.UNKNOWN + [None])
        style = rng.choice(['std'] * 8 + ['end', 'tab', 'space', 'twice', 'upper', 'none', 'first', 'semi'])
        cat, _cs = gen_cat(rng, charset, contexts, bad_bytes)
        with_header = rng.random() < 0.85
        if with_header:
            hv = G.header_value(rng, charset, style)
            head = (None, b'', None, [hv])
            if rng.random() < 0.05 and style != 'end':      # a plural header entry (legal; the charset is searched in the whole value,
                                                            # so with style 'end' the NUL and the next form would join the name: excluded)
                head = (None, b'', b'pl', [hv, b'x'])
            cat = [head] + cat
        elif cat and rng.random() < 0.4:
            # no header entry, but the first message mentions a charset: must NOT be taken as the file's charset
            c, m, p, f = cat[0]
            cat[0] = (c, m, p, [b'see charset=UTF-8 ' + f[0] + 'é'.encode('UTF-8')] + f[1:])
        lay = G.gen_layout(rng, simple=simple)
        if lay['minor'] == 1 and rng.random() < 0.3:
            lay['nsysdep'] = rng.choice([1, 2, 1 << 31])
        if rng.random() < 0.05:
            lay['minor'] = rng.choice([2, 7, 0xffff])
        out.append((G.serialize(cat, lay), cat, lay, charset if with_header else None, style))
    return out

def gen_cat(rng, charset, contexts, bad_bytes):
    eff = charset if (charset in G.COMPAT) else 'ASCII'
    return G.gen_catalog(rng, eff, contexts=contexts, bad_bytes=bad_bytes)

def malformed_stream(rng, files, per_file_flips, n_random, all_truncations=True, word_files=None):
    """truncations at every point, every header/table word × boundary values, byte flips, random bytes behind a magic"""
    out = []
    for idx, data in enumerate(files):
        cuts = range(len(data) + 1) if all_truncations else sorted({rng.randrange(len(data) + 1) for _ in range(24)} | {0, 3, 4, 8, 12, 19, 20, 27, 28, len(data) - 1, len(data)})
        for t in cuts:
            if 0 <= t <= len(data):
                out.append(data[:t])
        if word_files is None or idx < word_files:
            for at in G.word_positions(data):
                for v in G.boundary_values(data, at):
                    out.append(G.set_word(data, at, v))
        out.extend(G.flips(rng, data, per_file_flips))
    out.extend(G.random_behind_magic(rng, n_random))
    out.extend(structured_malformed(rng, max(20, n_random // 20)))
    out.extend([b'', b'\xde', b'\xde\x12\x04', G.LE_MAGIC, G.BE_MAGIC, b'\x00' * 28, G.LE_MAGIC + b'\0' * 16, G.BE_MAGIC + b'\0' * 24,
                G.LE_MAGIC + struct.pack('<6I', 1, 0, 28, 28, 0, 0), G.LE_MAGIC + struct.pack('<6I', 1, 0, 28, 28, 0, 0) + b'\0' * 8 + b'\1\0\0\0'])
    return out

def structured_malformed(rng, count):
    """catalogs broken in one structural respect: order, NUL structure, duplicate keys (legal for this reader)"""
    out = []
    for _ in range(count):
        cat, _cs = G.gen_catalog(rng, 'UTF-8', n=rng.randint(2, 5))
        cat = [(None, b'', None, [G.header_value(rng, 'UTF-8', 'std')])] + cat
        how = rng.choice(['swap', 'nul-key', 'nul-plural', 'nul-value', 'dup', 'rev', 'ctx-only-order'])
        i = rng.randrange(1, len(cat))
        c, m, p, f = cat[i]
        if how == 'swap' and len(cat) > 2:
            j = rng.randrange(1, len(cat))
            cat[i], cat[j] = cat[j], cat[i]
        elif how == 'rev':
            cat = cat[:1] + cat[:0:-1]
        elif how == 'nul-key':
            cat[i] = (c, m + b'\0' + b'x', b'pl', f)
        elif how == 'nul-plural':
            cat[i] = (c, m, b'a\0b', f)
        elif how == 'nul-value':
            cat[i] = (c, m, None, [f[0], b'extra'])
        elif how == 'dup':
            cat.insert(i, cat[i])
        elif how == 'ctx-only-order':
            cat[i] = (b'zzz', m, p, f)      # a context changes the key, hence the order
        out.append(G.serialize(cat, G.gen_layout(rng)))
    return out

TIE_MODULE = 'I18n.Props.C08Tie'

def prove(chk, module):
    """The proof side of C08/C09: (1) the property's theorems about the model `Mo.parse`; (2) the tie: regenerate
    Generated/MoParser.lean from the CURRENT lib/moparser.py (tools/translate/mo2lean.py), rebuild, and check the
    kernel proof that the regenerated parser equals the model (Props/C08Tie.lean: generated_parse_eq_model and the
    headline theorems restated about the regenerated definition).  A source change outside the translator's subset
    (exit 3, `untranslatable`) or one that breaks the equality proof lands in chk.broken, never skipped.
    Sets chk.generated_ok (is the driver's `gparse` op in step with the current source?)."""
    ok = chk.prove(module, generated=('mo',), extra_targets=())
    tie = common.lean_check(TIE_MODULE, generated=(), extra_targets=('driver',), leanchecker=chk.thorough)
    tr = chk.lean.translation.get('mo', '')
    tie_ok = tie.ok and not tr.startswith('untranslatable')
    lean = chk.lean
    lean.obligations += tie.obligations
    lean.discharged += tie.discharged if tie_ok else 0
    lean.theorems = list(lean.theorems) + list(tie.theorems)
    lean.axioms.update(tie.axioms)
    if not tie.ok:
        lean.problems = list(lean.problems) + [TIE_MODULE + ': ' + p for p in tie.problems]
        chk.broken.append({'kind': 'proof', 'module': TIE_MODULE, 'translation': tr, 'problems': tie.problems,
                           'meaning': 'the parser regenerated from the current lib/moparser.py is no longer proved equal to the model Mo.parse '
                                      '(generated_parse_eq_model and its corollaries)'})
    chk.coverage['tie'] = {'module': TIE_MODULE, 'translator': 'tools/translate/mo2lean.py', 'translation': tr, 'checked': tie_ok,
                           'theorems': tie.theorems, 'problems': tie.problems[:8]}
    chk.generated_ok = tie_ok
    return ok and tie_ok

def run_parse_stream(chk, name, datas, encodings=(None,), generated=True):
    """the real parser against the hand-written model (`mo parse`) and, on the same inputs, against the definition
    regenerated from the source (`mo gparse`, stream `<name>-generated`: exercises the translator's semantics kit)"""
    lines, outs, kept = [], [], []
    skipped = 0
    for data in datas:
        for enc in encodings:
            line, skip = parse_line(data, enc)
            if skip:
                skipped += 1
                continue
            lines.append(line)
            outs.append(impl_parse(data, enc))
            kept.append(data)
    dis, model = chk.stream(name, lines, outs)
    chk.coverage['streams'][name]['skipped_unmodelled_codec'] = skipped
    if generated and getattr(chk, 'generated_ok', False):
        gdis, _ = chk.stream(name + '-generated', [l.replace('mo parse ', 'mo gparse ', 1) for l in lines], outs)
        dis = sorted(set(dis) | set(gdis))
    return dis, outs, kept

def run_check_stream(chk, name, datas):
    lines, outs = [], []
    skipped = 0
    for data in datas:
        line, skip = check_line(data)
        if skip:
            skipped += 1
            continue
        lines.append(line)
        outs.append(impl_check(data))
    dis, model = chk.stream(name, lines, outs)
    chk.coverage['streams'][name]['skipped_unmodelled_codec'] = skipped
    return dis, outs
