#!/venv/bin/python
"""C02 — one well-formed output line per problem; file content cannot forge or corrupt output."""
import os, sys
sys.path.insert(0, os.path.join(os.path.dirname(os.path.abspath(__file__)), '..'))
import common

GENERATED = ('unicode', 'tagregistry', 'tagsites', 'tagstate', 'tagsfmt')

def main():
    chk = common.Check('C02')
    import tags_common as P
    proved = chk.prove('I18n.Props.C02', generated=GENERATED, extra_targets=())
    # the tie: _escape, safe_format, Tag.get_priority, Tag.format regenerated from the current lib/tags.py and proved equal to the model (Props/C02Tie.lean)
    tie_ok = common.prove_tie(chk, 'I18n.Props.C02Tie', ('tagsfmt',),
                              'the functions regenerated from the current lib/tags.py (_escape, safe_format, Tag.get_priority, Tag.format) are no longer proved '
                              'equal to Tags.escape / safeFormat / priority / format (generated_*_eq_model and their corollaries)')
    # every stream of these four functions runs a second time through the regenerated definitions (driver ops gescape / gpriority / gformat / gsformat)
    TWIN = {'tags escape ': 'tags gescape ', 'tags priority ': 'tags gpriority ', 'tags format ': 'tags gformat ', 'tags sformat ': 'tags gsformat '}
    plain_stream = chk.stream
    def stream_with_twin(name, lines, outs, **kw):
        r = plain_stream(name, lines, outs, **kw)
        if tie_ok:
            pairs = [(TWIN[k] + l[len(k):], o) for l, o in zip(lines, outs) for k in TWIN if l.startswith(k)]
            if pairs:
                plain_stream(name + '-generated', [p[0] for p in pairs], [p[1] for p in pairs])
        return r
    chk.stream = stream_with_twin
    R = P.Real()
    sites = P.load_sites()
    if sites is None:
        chk.broken.append({'kind': 'translator', 'problem': 'tagsites2lean --json failed'})
    driver_ok = os.path.exists(common.driver_path()) and not any('untranslatable' in s for s in chk.lean.translation.values())
    mult = 1
    if driver_ok:
        P.stream_escape(chk, R)
        P.stream_priority(chk, R)
        P.stream_format(chk, R, 20000 if chk.thorough else 2500)
        P.stream_checker_tag(chk, R, 8000 if chk.thorough else 1200)
        P.stream_safe_format(chk, R, 20000 if chk.thorough else 2500)
    else:
        chk.broken.append({'kind': 'correspondence', 'stream': 'tags-*', 'problem': 'driver could not be rebuilt from the regenerated model'})
    if chk.broken:
        mult = 4
    # ---- falsifiers on the real code (always; larger when something above broke)
    cex = []
    strings = P.gen_strings(chk)
    c, tried = P.falsify_escape(chk, R, strings)
    chk.evaluations += tried
    if c:
        cex.append(c)
    c = P.falsify_registry(chk, R)
    if c:
        cex.append(c)
    c, n = P.falsify_colour(chk, R)
    chk.evaluations += n
    if c:
        cex.append(c)
    c, n = P.falsify_stdout_encoding(chk, R)
    chk.evaluations += n
    if c:
        cex.append(c)
    c, n = P.falsify_character_names(chk, R)
    chk.evaluations += n
    if c:
        cex.append(c)
    # sequences: controlled history in fresh worker processes (unit calls, several files per process, several files per command line)
    seq_v, seq_stats, seq_lines, seq_outs, seq_e2e = P.sequence_stream(chk, R, workers=4 if chk.thorough else 3)
    chk.coverage['sequences'] = seq_stats
    if driver_ok and seq_lines:
        chk.stream('tags-seq', seq_lines, seq_outs)
    c, n = P.falsify_cli_sequences(chk, R, seq_e2e, 12 if chk.thorough else 4)
    chk.evaluations += n
    if c:
        cex.append(c)
    replays, stats, lines, outs = P.taint_stream(chk, R, (2700 if chk.thorough else 500) * mult, sites)
    chk.coverage['taint'] = stats
    chk.note_cases({('tag', t) for t in stats['tags_seen']})
    if driver_ok and lines:
        chk.stream('tags-e2e', lines, outs)
    # ---- inventory for the evidence: every safestr / safe_format site with its classification
    if sites is not None:
        chk.coverage['safestr_sites'] = [{'key': s['key'], 'line': s['line'], 'provenance': s['prov'], 'rules': s['rules']} for s in sites['safestr_sites']]
        chk.coverage['tag_sites'] = len(sites['tag_sites'])
        chk.coverage['print_sites'] = sites['print_sites']
        chk.coverage['classifier_probes'] = sites['probes']
        bad_sites = [s for s in sites['safestr_sites'] if s['prov'] in ('fileDerived', 'unknown')]
    else:
        bad_sites = []
    state = P.load_state()
    if state is not None:
        chk.coverage['state_inventory'] = {'functions': [{k: f[k] for k in ('key', 'kind', 'decorators', 'scopeDecls', 'mutableDefaults', 'writes', 'readsState')} for f in state['fns']],
                                           'mutated_module_level_names': state['mutations']}
    # ---- report
    reported_keys = set()
    for v in replays:
        reported_keys.add(v['key'])
        chk.violation(f"{v['kind']}: {v.get('tag')} at {v.get('where')}", v, key=v['key'])
    for v in seq_v:
        reported_keys.add(v['key'])
        chk.violation(f"{v['kind']}: {v.get('tag')} at {v.get('where')}", v, key=v['key'], **({'no_input': True} if v.get('no_input') else {}))
    for c in cex:
        chk.violation(c['kind'] + ': real code deviates from the property', c, key=c['kind'] + ':' + str(c.get('input', '')))
    # a site the inventory flags but the taint run did not reach with hostile text: no concrete input
    for s in bad_sites:
        key = 'safestr-site:' + s['key']
        if key not in reported_keys and chk.match_known(key) is None and not chk.violations:
            chk.violation('safestr site classified ' + s['prov'] + ' but not reached by the taint stream',
                          {'site': s['key'], 'line': s['line'], 'provenance': s['prov'], 'rules': s['rules']}, no_input=True)
    # a recorded finding that no longer reproduces
    for k in chk.known:
        if k['key'] not in reported_keys and k['key'].startswith('safestr-site:'):
            print(f"KNOWN-FINDING-RESOLVED: property=C02 {k['key']} no longer reproduces on the real code; update Props/C02.lean and known_findings.json")
    if chk.broken and not chk.violations:
        # the proof side fails only because a recorded finding was repaired in /repo?  then say so instead of a bare failure
        chk.violation('proof obligation or correspondence no longer checks', {'broken': chk.broken}, no_input=True)
    nsites = len(sites['safestr_sites']) if sites else 0
    chk.finish(
        level='proof',
        rule='unit: all strings up to length 2 (3 in thorough) over a 22-character alphabet covering every code-point class, every code point '
             'below U+3000 (U+30000 thorough), both ends of every run of equal (isprintable, category) in the interpreter\'s tables, random code '
             'points and random mixed-class strings, all 256 single bytes + random bytes, ints; Tag.format / Checker.tag / safe_format / '
             'message_repr on random typed extras; end to end: PO/POT/MO catalogs with a hostile marker (newline, ESC[31m, U+009B, U+202E, U+200B, '
             'DEL, CR, LS/PS/NEL, combined) in every free-text slot, each slot x {po,pot,mo} once plus random combinations; sequences in fresh worker '
             'processes: the same text as safestr / str / bytes / str()-able object in every ordered pair of types x entry points (unique text per '
             'sequence), the message identification as tool text then as file text and reversed, specials in both orders, random 3-8 call '
             'sequences; catalogs whose flag / msgid / msgctxt / header value / header key / stray line / format key EQUALS text the tool printed '
             'earlier for the same file or for an earlier file of the same process (harvested from a run), both orders, and `i18nspector A B` '
             'against `i18nspector A; i18nspector B`; non-trivial = distinct '
             'tag emitted / distinct code-point class exercised',
        trusted=['Lean 4.33 kernel', 'axioms: propext, Classical.choice, Quot.sound only',
                 'the tie of Tags.escape / safeFormat / priority / format to lib/tags.py: tools/translate/tagsfmt2lean.py (over tools/translate/pytr; rules in its docstring and DESIGN-notes/tags.md) '
                 'and lean/I18n/PyKit.lean; the regenerated _escape, safe_format, Tag.get_priority, Tag.format are PROVED equal to the model (Props/C02Tie.lean) with repr / str.format / _is_safe as shared '
                 'primitives, and run against CPython in the *-generated streams',
                 'translators tagregistry2lean / unicode2lean (dumps of live objects) and tagsites2lean (ast walk + the provenance classifier whose '
                 'rules are listed in its docstring: literal, int, toolTable, regexGuarded, libraryMessage, unicodeName, formatOfEscaped)',
                 'tagstate2lean (ast inventory of state on the output path; sees names, decorators, defaults, stores and mutating method calls in '
                 'lib/tags.py, msgrepr.py, cli.py — not state kept inside other modules); history independence of the real code is otherwise '
                 'test-level (sequence streams)',
                 'CPython repr(), str(int), str.format: modelled by hand from unicode_repr / bytes_repr / MarkupIterator, tied by the tags-escape and '
                 'tags-safe-format streams; str.format only for fields {} {N} {name} and the {{ }} escapes',
                 'lib/terminal.py (curses) is not modelled: colour strings are arbitrary parameters of the theorems; exercised by the colour falsifier '
                 'under real terminfo entries',
                 'the path is printed unescaped by the tool; the theorems assume a clean / newline-free path (paths are not file content)',
                 'Spec.Tags.hostile (Cc, Cf, Zl, Zp, Cs) and Spec.Tags.Token are my reading of the property statement'],
        explanation='TIE: Generated/TagsFmt.lean is regenerated from the current lib/tags.py on every run; Props/C02Tie.lean proves generated_escape_eq_model, generated_safe_format_eq_model, '
                    'generated_get_priority_eq_model, generated_format_eq_model for all inputs and restates escape_clean / escape_token / format_grammar / colour_strip / line_clean / safe_format_clean / '
                    'priority_monotone about the regenerated functions; a source change breaks a proof or the translation (coverage.tie) and starts the falsifiers. '
                    'Proved for all inputs (any UnicodeDB satisfying Sound, discharged for the interpreter\'s tables by unicode_sound): escape_clean, '
                    'escape_clean_classes, escape_token, escape_int, format_grammar, colour_strip, line_clean, line_count, unknown_tag_refused, '
                    'printed_tag_registered, safe_format_clean, message_repr_clean, format_calls_independent / format_calls_determine_run / '
                    'history_independent / extra_token_independent (no line depends on earlier calls, no token on neighbouring extras). '
                    'Proved over regenerated tables: priority_pin, priority_monotone, '
                    'priority_table_monotone, registry_letter, tag_sites_registered, is_safe_pin, escaper_stateless, sites_checked, safestr_sites_tool_text '
                    f'over {nsites} safestr/safe_format sites (on the pinned tree one site, tags.safestr(key) in lib/check/msgformat/python.py, wrapped a '
                    'python-format mapping key: found by the inventory theorem and the taint stream, repaired by fix: d06c053). OUTSTANDING: none of the planned theorems; not proved: '
                    'a decoder round-trip for repr (the token grammar is proved instead), the classifier itself (trusted), terminal.py.')

if __name__ == '__main__':
    common.main_wrapper(main)
