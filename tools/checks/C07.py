#!/venv/bin/python
"""C07 — Plural-Forms diagnostics are truthful, and complete on the examined window."""
import os, sys
sys.path.insert(0, os.path.join(os.path.dirname(os.path.abspath(__file__)), '..'))
import common

def stream_parse_plural_forms(chk, C, count, tie_ok):
    """the real gettext.parse_plural_forms (both values of `strict`) against the model's reader (`parsepf`, `parsepfs`) and, on the same
    inputs, against the definitions regenerated from the source (`gparsepf`, `gparsepfs`)"""
    from lib import gettext as lg
    subjects = ['', 'nplurals=1; plural=0', 'nplurals=1; plural=0;', 'x nplurals=2; plural=n != 1; y', 'nplurals=2; plural=(;', 'nplurals=0; plural=0;',
                'nplurals=3;\t plural=n%3', 'nplurals=1;plural=;', 'nplurals=2; plural=n>1;;', 'nplurals=2; plural=n n;']
    while len(subjects) < count:
        subjects.append(C.gen_search_subject(chk.rng) if chk.rng.random() < 0.5 else C.gen_header_value(chk.rng))
    def run(s, strict):
        try:
            r = lg.parse_plural_forms(s, strict=strict)
        except lg.PluralFormsSyntaxError:
            return 'err syntax'
        except ValueError:
            return 'err ValueError'
        except Exception as exc:
            return 'err crash ' + type(exc).__name__
        return f'ok {r[0]}' if strict else f'ok {r[0]} {C.H.hexs(r[2])} {C.H.hexs(r[3])}'
    for strict, op, name in ((False, 'parsepf', 'parse-plural-forms'), (True, 'parsepfs', 'parse-plural-forms-strict')):
        outs = [run(s, strict) for s in subjects]
        chk.stream(name, [f'checkplurals {op} ' + C.H.hexs(s) for s in subjects], outs)
        if tie_ok:
            chk.stream(name + '-generated', [f'checkplurals g{op} ' + C.H.hexs(s) for s in subjects], outs)

def main():
    chk = common.Check('C07')
    import C07_common as C
    proved = chk.prove('I18n.Props.C07', generated=('intexpr', 'grammar', 'pluralforms', 'gettextpf', 'chkplurals'), extra_targets=())
    # the tie (first part): parse_plural_forms regenerated from the current lib/gettext.py and proved equal to the model's reader (Props/C07Tie.lean)
    tie_ok = common.prove_tie(chk, 'I18n.Props.C07Tie', ('gettextpf',),
                              'parse_plural_forms regenerated from the current lib/gettext.py is no longer proved equal to CheckPlurals.parsePluralForms / '
                              'parsePluralFormsStrict (generated_parse_plural_forms_*_eq_model and their corollaries)')
    # the tie (second part): format_range and the analysing part of check_plurals regenerated from the current lib/misc.py and lib/check/__init__.py,
    # split at its seams, each proved equal to the model's function (Props/C07ChkTie.lean)
    chk_tie_ok = common.prove_tie(chk, 'I18n.Props.C07ChkTie', ('chkplurals', 'gettextpf'),
                                  'format_range / the registry comparison, the window loop, the gap analysis of check_plurals regenerated from the current source are no '
                                  'longer proved equal to formatRange / localCorrect / window / gapRanges (generated_*_eq_model)') and tie_ok
    chk.chk_tie_ok = chk_tie_ok
    driver_ok = os.path.exists(common.driver_path()) and not any('untranslatable' in s for k, s in chk.lean.translation.items() if k not in ('gettextpf', 'chkplurals'))
    count = 12000 if chk.thorough else 2500
    metas = []
    if driver_ok:
        C.stream_header_search(chk, 12000 if chk.thorough else 3000)
        dis, metas = C.stream_check_plurals(chk, count)
        stream_parse_plural_forms(chk, C, 6000 if chk.thorough else 1500, tie_ok)
    else:
        chk.broken.append({'kind': 'correspondence', 'stream': 'check-plurals', 'problem': 'driver could not be rebuilt'})
        C.H.ready()
        for _ in range(count):
            pfs, lang, correct, msgs, is_template = C.gen_case(chk.rng)
            out, calls, pre = C.run_impl(pfs, lang, msgs, is_template)
            metas.append((pfs, lang, msgs, is_template, calls, pre, out))
    # falsifier: every clause of the statement re-computed from the observed tags of the real method
    extra = []
    if chk.broken:
        C.H.ready()
        for _ in range(count * 3):
            pfs, lang, correct, msgs, is_template = C.gen_case(chk.rng)
            out, calls, pre = C.run_impl(pfs, lang, msgs, is_template)
            extra.append((pfs, lang, msgs, is_template, calls, pre, out))
    found = {}
    for m in metas + extra:
        r = C.falsify_case(m)
        if r is not None:
            key = r['kind'] + ':' + '|'.join(r['plural_forms'])
            cls = r['kind']
            if cls not in found or len(key) < len(found[cls][0]):
                found[cls] = (key, r)
    chk.evaluations += len(extra)
    chk.coverage['falsifier'] = {'runs_checked_against_reference_semantics': len(metas) + len(extra), 'violation_classes': sorted(found)}
    reported = False
    for cls, (key, r) in sorted(found.items()):
        fk = 'C07:' + cls
        if chk.violation(f'Plural-Forms diagnostics wrong ({cls})', r, key=fk):
            reported = True
    if not reported and not found and chk.broken:
        chk.violation('proof obligation or correspondence no longer checks', {'broken': chk.broken}, no_input=True)
    elif not reported and chk.broken and not chk.violations:
        # only known findings were re-found, but something else is broken too
        chk.violation('proof obligation or correspondence no longer checks', {'broken': chk.broken}, no_input=True)
    chk.finish(
        level='proof',
        rule='Plural-Forms values from a grammar (junk x nplurals x blanks x expression x terminator, registry strings and their one-edit mutants, '
             'duplicates) x catalog shapes (0/1/2 distinct msgstr[] counts, untranslated, obsolete, fuzzy) x languages of the registry or none x template flag; '
             'non-trivial = distinct header value list',
        trusted=['Lean 4.33 kernel', 'axioms: propext, Classical.choice, Quot.sound only',
                 'parse_plural_forms is tied by translation + proof: tools/translate/gettextpf2lean.py (over tools/translate/pytr; the match object of the pinned header regex is the model\'s scanner) is trusted, '
                 'the regenerated reader is PROVED equal to parsePluralForms / parsePluralFormsStrict (Props/C07Tie.lean) and runs against CPython in the parse-plural-forms*-generated streams',
                 'format_range and check_plurals after the parse of the header value are tied by translation + proof at their seams: tools/translate/chkplurals2lean.py (over pytr core/loops/trystate) is trusted, '
                 'the regenerated format_range / check_plurals_registry / check_plurals_window / check_plurals_gaps are PROVED equal to formatRange / localCorrect / window / gapRanges (Props/C07ChkTie.lean); '
                 'the regenerated glue between the seams (check_plurals_tail) and the part of the method before the parse stay tied by the check-plurals stream of the hand-written model only '
                 '(the regenerated definitions materialise range objects as lists, so they are not run on the stream\'s inputs: proof-level tie only)',
                 'Spec.PluralFormsRe: list-of-successes semantics of the regex fragment (literal, set, greedy single-character repeat, x?, group) as the meaning of re.search',
                 'pluralforms2lean translator (re._parser tree, registry as loaded by lib.ling, codomain_limit / format_range max from the AST of check_plurals)',
                 'py2lean translator for the three expression analyses; hand-written model of check_plurals / parse_plural_forms tied by the check-plurals stream',
                 'tags._escape of the registry strings and message_repr are inputs of the model (C02\'s concern)'],
        explanation='Proved for all inputs (model), Props/C07.lean: header_regex_pin + scanner_is_search + reader_is_reference (the hand-written header scanner '
                    'computes pattern.search of the LIVE pattern\'s re._parser tree under a reference backtracking semantics: leftmost start, greedy, groups; decl_is_text / no_decl_is_text: the same reading in plain text), '
                    'syntax_tag_iff, junk_tag_iff (syntax-error iff no leftmost declaration whose expression parses; junk tags iff text before/after, quoting it), '
                    'window_report (= window_tag_iff + window_tag_least + gap_claim_true on the whole method: one diagnostic iff some i < 200 fails or is >= nplurals, for the '
                    'LEAST i with its true outcome; every "f(x) != range" claim is about a non-empty range no member of which is produced by any m < 2^32), format_range_sound, '
                    'nplurals_tag_iff (+ scan_spec), clean_decl_silent, clean_decl_no_own_diagnostic, registry_never_unusual, registry_string_never_unusual, unusual_tag_iff (both directions), '
                    'shipped_registry_clean (kernel evaluation over the dump of data/languages: every declaration parses strictly, is total/in range/onto on the window, '
                    'no language has two declarations with one nplurals), registry_declaration_silent, checkPlurals_nocrash (whole method, any input, shipped registry). '
                    'Outstanding: "valid expression" is the model\'s parser (C04 ties it to the grammar); the hint extra and tags._escape are inputs of the model.')

if __name__ == '__main__':
    common.main_wrapper(main)
