#!/venv/bin/python
"""C17 — diagnostics depend on content, not on encoding or packaging.

1. proof side: regenerate Generated/BinaryReads.lean from /repo (tools/translate/meta2lean.py), build Props/C17, audit;
2. corpus (corpus/C17/*.json): past failing pairs / packages, replayed first on the real tool;
3. correspondence of the hand-written packaging model with the real code (`deb-fakepath`, `deb-checkfile` streams; the MO
   loader's stream belongs to C08/C09 and is re-run here on layout pairs: `mo-layout-model`);
4. the metamorphic falsifiers on the REAL tool (always run — for the clauses that are not provable in a model they ARE the
   decision): PO spellings, transcodings, MO layouts, PO vs MO, packages (dpkg-deb, TMPDIR snapshot, command-line runs).
"""
import collections, glob, json, os, sys
sys.path.insert(0, os.path.join(os.path.dirname(os.path.abspath(__file__)), '..'))
import common
import meta_common as M
import meta_falsify as F
import whole_common as W
from gen import meta as G

def replay_corpus(chk, work, stats):
    """→ list of discrepancies from corpus/C17"""
    found = []
    for path in sorted(glob.glob(os.path.join(common.VERIF, 'corpus', 'C17', '*.json'))):
        item = json.load(open(path))
        stats['corpus_items'] += 1
        name = os.path.basename(path)[:-5]
        if item['kind'] == 'pair':
            a, b = bytes.fromhex(item['files'][0]), bytes.fromhex(item['files'][1])
            ta = M.tags_of_bytes(work, 'corpus/' + item['paths'][0], a)
            tb = M.tags_of_bytes(work, 'corpus/' + item['paths'][1], b)
            rel = item['relation']
            if rel == 'charset':
                xa, xb = M.drop(ta, names=M.CHARSET_TAGS), M.drop(tb, names=M.CHARSET_TAGS)
            elif rel == 'po-vs-mo':
                xa, xb = M.drop(ta, exact=[M.MO_EXEMPT]), tb
            else:
                xa, xb = ta, tb
            if ta[0] == 'ok' and ta[1]:
                chk.note_cases([('corpus', name)])
            if xa != xb:
                found.append(dict(F._pair_replay('corpus-' + rel, None, a, b, ta, tb, {'corpus': name, 'note': item.get('note')}, '|'.join(item['paths']))))
        elif item['kind'] == 'package':
            members = {k: bytes.fromhex(v) for k, v in item['members'].items()}
            nested = item.get('nested')
            if nested:       # a member that is itself a package (built here, so that the corpus stays readable)
                inner = M.build_deb(work, 'corpus-inner-' + name, {k: bytes.fromhex(v) for k, v in nested['members'].items()})
                members[nested['as']] = open(inner, 'rb').read()
            found += F.check_package(work, 'corpus-' + name, members, [tuple(x) for x in item.get('symlinks', [])], item.get('dirs', []), stats,
                                     sequence=True, inject=True, via_cli=True)
    return found

def mo_model_stream(chk, work, count):
    """tie of the MO loader model on layout PAIRS: both layouts of one catalog through the real parser and through `mo parse`;
    the model must agree with the code on each, and give the same answer for both"""
    try:
        import mo_common as P
    except Exception as exc:                # the C08 harness is shared; if it cannot be imported the stream is skipped, not failed
        chk.coverage['mo_model_stream'] = 'skipped: ' + repr(exc)
        return
    rng = chk.rng
    lines, outs = [], []
    for _ in range(count):
        cat = G.gen_catalog(rng, po_features=False, n=rng.choice([0, 1, 2, 4]))
        css = [c for c in G.charsets_for(cat) if c in ('UTF-8', 'ISO-8859-1', 'ISO-8859-2', 'ISO-8859-15', 'KOI8-R', 'CP1252', 'ASCII')]
        if not css:
            continue
        cs = rng.choice(css)
        l1, l2 = G.gen_layout(rng), G.gen_layout(rng)
        l2['minor'], l2['nsysdep'] = l1['minor'], l1['nsysdep']       # same hidden-strings flag: `Encodes b cat hidden`
        pair = []
        for lay in (l1, l2):
            data = G.render_mo(cat, cs, lay)
            line, skip = P.parse_line(data, None)
            if skip:
                pair = []
                break
            pair.append((line, P.impl_parse(data, None)))
        for line, out in pair:
            lines.append(line)
            outs.append(out)
    dis, model = chk.stream('mo-layout-model', lines, outs)
    diff = [k for k in range(0, len(model) - 1, 2) if model[k] != model[k + 1]]
    chk.coverage['streams']['mo-layout-model']['pairs'] = len(model) // 2
    chk.coverage['streams']['mo-layout-model']['model_pairs_differing'] = len(diff)
    for k in diff[:3]:
        chk.broken.append({'kind': 'model', 'stream': 'mo-layout-model', 'what': 'the MODEL loads two layouts of one catalog differently', 'lines': [lines[k][:400], lines[k + 1][:400]]})

def main():
    chk = common.Check('C17')
    chk.prove('I18n.Props.C17', generated=('meta',))
    if chk.lean and chk.lean.translation.get('meta') == 'changed':
        chk.coverage['inventory'] = 'Generated/BinaryReads.lean changed with /repo: pins re-checked by the build'
    thorough = chk.thorough
    scale = 8 if thorough else 1
    stats = collections.Counter()
    work = M.Work()
    found, keyed = [], []
    try:
        found += replay_corpus(chk, work, stats)
        # --- correspondence of the packaging model
        M.fakepath_stream(chk, 400 * scale)
        debs = []
        for name, n in [('packages', 20 * scale)]:
            found += F.packages(chk, work, n, stats, cli_every=4 if not thorough else 6, keep=debs)
        cases = []
        plain = work.write('plain/other.txt', b'just a text file\n')
        pofile = work.write('plain/pl.po', b'msgid ""\nmsgstr ""\n"Content-Type: text/plain; charset=UTF-8\\n"\n\nmsgid "a"\nmsgstr "b"\n')
        for d in debs:
            cases.append((d, None, chk.rng.choice([(), (), ('no-language-team-header-field',), ('unknown-file-type', 'empty-file')]), True))
        cases += [(plain, None, (), True), (plain, None, ('unknown-file-type',), True), (pofile, None, (), True), (pofile, None, (), False)]
        if debs:
            cases.append((debs[0], None, (), False))
        M.deb_stream(chk, work, cases)
        mo_model_stream(chk, work, 40 * scale)
        found += F.cli_subset(chk, work, 8 * scale, stats)
        keyed = F.charset_declarations(chk, work, stats)
        # --- the composed model against the real tool on whole files (loader model ∘ Real.pipeline vs Checker.check)
        found += W.stream(chk, work.root, chk.rng, 260 * scale)
        # --- the metamorphic falsifiers
        seeds = [chk.seed] + ([chk.seed + 1000 * k for k in (1, 2, 3)] if thorough else [])
        import random
        for sd in seeds:
            chk.rng = random.Random(f'C17/{sd}')
            for fn, n in [(F.po_spellings, 200), (F.transcodings, 200), (F.mo_layouts, 200), (F.po_vs_mo, 300)]:
                r = fn(chk, work, n * (2 if thorough else 1), stats)
                found += r
                chk.evaluations += 1
    finally:
        work.close()
    chk.evaluations += stats['po_spelling_pairs'] + stats['transcoding_pairs'] + stats['transcoding_pairs_mo'] + stats['mo_layout_pairs'] + stats['po_mo_pairs'] \
        + stats['po_mo_unsorted_pairs'] + stats['packages'] + stats['cli_runs'] + stats['sequence_runs'] + stats['cli_pairs'] + stats['cli_vs_inproc']
    chk.coverage['metamorphic'] = {k: v for k, v in sorted(stats.items())}
    chk.coverage['tags_emitted_by_the_real_checker'] = dict(sorted(M.SEEN_TAGS.items()))
    chk.note_cases([(t,) for t in M.SEEN_TAGS])
    chk.coverage['modulo'] = {'charset_tags': sorted(M.CHARSET_TAGS), 'mo_exemption': 'no-date-header-field POT-Creation-Date (PO side only)',
                              'order_sensitive_on_reordered_catalogs_only': sorted(M.ORDER_SENSITIVE)}
    for key, f in keyed:
        chk.violation(f"{f['kind']}: diagnostics differ", f, key=key)        # KNOWN-FINDING if the key is recorded, VIOLATION otherwise
    for f in found[:6]:
        chk.violation(f"{f['kind']}: diagnostics differ", f, key=None)
    if not found and chk.broken:
        chk.violation('proof obligation or model correspondence no longer checks; no failing pair or package found', {'broken': chk.broken}, no_input=True)
    chk.finish(
        level='proof',
        rule='catalogs: header (11 fields, 0-4 defects; Content-Type well-formed) x 0-8 messages over ten script families (text with escapes-worthy characters, '
             'format strings, plurals, contexts, newline discipline), PO-only decoration for the spelling clauses; spellings: wrapping (never inside a header field line), '
             'escape style (named/octal/hex, raw or fully escaped multibyte), blank/whitespace lines incl. inside entries, final newline; transcodings over every charset of '
             'data/encodings that can encode the catalog (+ alias names); MO layouts: byte order, revision, table order, padding, shared suffixes, hash table; packages built '
             'with dpkg-deb (PO/MO/malformed/other members, dot-files, symlinks, nested and fake *.deb, directories named *.po). non-trivial = distinct tag names seen',
        trusted=['Lean 4.33 kernel, standard axioms', 'tools/translate/meta2lean.py (ast inventories; pinned to Spec.Metamorphic)',
                 'Model/Deb.lean tied to lib/cli.py + Checker.__init__ by the deb-fakepath and deb-checkfile streams (real dpkg-deb, what os.walk yielded, independent extraction)',
                 'C08 parse_of_encodes (model of lib/moparser.py, tied by the mo-parse streams)',
                 'tools/checks/whole_common.py + lean/I18n/Driver/Whole.lean: the whole-files stream ties Real.wholeCheck (loader model + Real.pipeline) to Checker.check on file bytes',
                 'contract of tempfile.TemporaryDirectory, dpkg-deb, os.walk: TESTED (TMPDIR snapshots, also with an injected member failure and with unreadable packages)',
                 'the models of C08, C10, C14-C16, C18-C20, C07 and their ties (composed in Lemmas/MetaReal.lean); the adapters Obs -> Hdr.Entry / MsgFacts / Msg.Entry are '
                 'hand-written; the metamorphic comparisons on the real tool remain the tie of the composition as a whole'],
        explanation='PROVED over the composed model (C10/C08 loaders + the stage models of C15, C19, C07, C20, C18, C16, C14; whole_is_composition: it is the function the whole-files stream runs against the real tool; output_order + stage_order_pinned: tags in the order of the source): same_catalog_same_diagnostics '
                    '(po_spelling_invariant_composed, mo_layout_invariant_composed), transcoding_composed(_files) with the charset-name blindness of every stage but check_mime '
                    'proved for the instantiated models, po_vs_mo_composed(_check), po_file_vs_compiled_mo, checkAll_decomposes; generic layer: mo_layout_invariant, '
                    'po_spelling_invariant (no loader hypothesis), check_sim, po_vs_mo / po_vs_mo_hidden / po_vs_mo_check, exemption_iff, mo_entry_view_neutral, '
                    'unusual_characters_order_invariant, blame_is_order_sensitive; packaging: fake_path_*, deb_output, deb_output_lines, deb_lines_prefix, '
                    'deb_other_member_silent, deb_member_line, deb_no_value_error, not_a_package_is_regular, no_unpack_is_regular; inventory pins. REFUTED (open finding, '
                    'replayed every run): charset_declaration_refuted, po_vs_mo_unconditional_refuted. Explicit hypotheses left: SpelledFile/PyEnv (bytes and lines of the PO '
                    'files), Encodes/WF (MO files), HeaderRel/TcName/DbOk (transcoding), Real.World parameters. TEST level: everything about dpkg-deb, os.walk, temporary '
                    'files, and the behaviour of the real tool on metamorphic pairs and packages.')

if __name__ == '__main__':
    common.main_wrapper(main)
