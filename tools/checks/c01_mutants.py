#!/venv/bin/python
"""Seeded-mutant validation for C01 (run by hand: `/venv/bin/python tools/checks/c01_mutants.py [names…]`).

Each mutant is applied to a fresh clone of /repo under /tmp, must pass the pinned suite, and `./check C01 quick` is run on the
clone (VERIF_REPO); the table of outcomes goes to stdout.  Nothing here is part of the check itself."""
import json, os, shutil, subprocess, sys, time

VERIF = os.path.dirname(os.path.dirname(os.path.dirname(os.path.abspath(__file__))))
REPO = '/repo'

def replace(path, old, new, count=1):
    def apply(root):
        p = os.path.join(root, path)
        s = open(p, encoding='utf-8').read()
        assert s.count(old) == count, (path, old[:60], s.count(old))
        open(p, 'w', encoding='utf-8').write(s.replace(old, new))
    return apply

def git_revert(commit):
    def apply(root):
        subprocess.run(['git', 'revert', '--no-edit', commit], cwd=root, check=True, capture_output=True)
    return apply

MUTANTS = {
    # narrow one except clause: the lexer's error is no longer turned into the public syntax error
    'm01-plural-lexing-error-uncaught': [replace('lib/gettext.py', '    except intexpr.LexingError:\n        raise PluralExpressionSyntaxError\n', '')],
    # arithmetic failure handled on one path only
    'm02-zero-division-unused-path': [replace('lib/check/__init__.py', """        except ZeroDivisionError:
            message = tags.safe_format('f({}): division by zero', i)
            if has_plurals:""", """        except ZeroDivisionError:
            message = tags.safe_format('f({}): division by zero', i)
            if not has_plurals:
                raise
            if has_plurals:""")],
    # a strformat Error subclass no longer derives from the module's Error
    'm03-pybrace-error-reparented': [replace('lib/strformat/pybrace.py', 'class ArgumentRangeError(Error):', 'class ArgumentRangeError(Exception):')],
    'm04-c-warning-reparented': [replace('lib/strformat/c.py', 'class NonPortableConversion(Error):', 'class NonPortableConversion(Exception):')],
    # nested quantifier back in a regex (time)
    'm05-pybrace-nested-quantifier': [git_revert('07546e5')],
    # int() on an unvalidated numeral: the digit limit again
    'm06-int-digit-limit': [git_revert('871d4d7')],
    # the UnicodeError -> UnicodeDecodeError mapping of the loader's decode helper dropped (broken-encoding no longer reached)
    'm07-decode-unicodeerror-unmapped': [replace('lib/encodings.py', "    except UnicodeError as exc:\n        raise UnicodeDecodeError(encoding, bytes(data), 0, len(data), str(exc)) from exc\n", "    except UnicodeError as exc:\n        raise\n")],
    # a tag changes the exit status
    'm08-exit-status-on-os-error': [replace('lib/cli.py', "        s = tag.format(self.fake_path, *extra, color=True)\n        print(s)\n",
                                            "        s = tag.format(self.fake_path, *extra, color=True)\n        print(s)\n        if tagname == 'os-error':\n            import atexit\n            atexit.register(os._exit, 1)\n")],
    # the retry after UnicodeDecodeError uses a codec that can fail again (MO files only)
    'm09-retry-with-ascii-for-mo': [replace('lib/check/__init__.py', "file = constructor(self.path, encoding='ISO-8859-1')", "file = constructor(self.path, encoding=('ASCII' if is_binary else 'ISO-8859-1'))")],
    # os.stat failure: only the commonest errno is mapped to os-error
    'm10-stat-error-narrowed': [replace('lib/check/__init__.py', "            os.stat(self.path)\n        except OSError as exc:", "            os.stat(self.path)\n        except FileNotFoundError as exc:")],
    # the ValueError of urlparse no longer caught
    'm11-urlparse-valueerror': [git_revert('2f85d76')],
    # date handler narrowed to the boilerplate case
    'm12-date-syntax-error-only-boilerplate': [replace('lib/check/__init__.py', "                except gettext.DateSyntaxError:\n                    self.tag('invalid-date', tags.safestr(field + ':'), date)\n                    continue\n",
                                                       "                except gettext.DateSyntaxError as exc:\n                    if exc.args and 'ambiguous' in str(exc.args[0]):\n                        raise\n                    self.tag('invalid-date', tags.safestr(field + ':'), date)\n                    continue\n")],
    # ---- variants of m01-m03, m09 that the pinned suite does not notice
    # narrowed except: the lexer's error escapes when the offending character comes late in the expression
    'm13-plural-lexing-error-late': [replace('lib/gettext.py', "    except intexpr.LexingError:\n        raise PluralExpressionSyntaxError\n",
                                             "    except intexpr.LexingError as exc:\n        if exc.source_pos.idx > 40:\n            raise\n        raise PluralExpressionSyntaxError\n")],
    # narrowed except: a directory in front of LC_MESSAGES with a well-formed but unknown locale code
    'm14-lc-messages-fixing-failed': [replace('lib/check/__init__.py', "                    language.remove_nonlinguistic_modifier()\n                except ling.LanguageError:",
                                              "                    language.remove_nonlinguistic_modifier()\n                except ling.LanguageSyntaxError:")],
    # arithmetic failures at n < 2 no longer handled
    'm15-zero-division-small-n': [replace('lib/check/__init__.py', "        except ZeroDivisionError:\n            message = tags.safe_format('f({}): division by zero', i)",
                                          "        except ZeroDivisionError:\n            if i < 2:\n                raise\n            message = tags.safe_format('f({}): division by zero', i)")],
    'm16-overflow-small-n': [replace('lib/check/__init__.py', "        except OverflowError:\n            message = tags.safe_format('f({}): integer overflow', i)",
                                     "        except OverflowError:\n            if i < 2:\n                raise\n            message = tags.safe_format('f({}): integer overflow', i)")],
    # a raised Error subclass re-parented: check_string still has a clause of its own for it, check_message (msgid of a non-template) has not
    'm17-c-missing-argument-reparented': [replace('lib/strformat/c.py', 'class MissingArgument(Error):', 'class MissingArgument(Exception):')],
    'm18-python-type-mismatch-reparented': [replace('lib/strformat/python.py', 'class ArgumentTypeMismatch(Error):', 'class ArgumentTypeMismatch(Exception):')],
    # the retry uses ASCII for templates
    'm19-retry-with-ascii-for-pot': [replace('lib/check/__init__.py', "file = constructor(self.path, encoding='ISO-8859-1')", "file = constructor(self.path, encoding=('ASCII' if is_template else 'ISO-8859-1'))")],
    # an over-long charset name escapes the lookup handler
    'm20-long-charset-name': [replace('lib/check/__init__.py', "                except encinfo.EncodingLookupError:\n                    if encoding == 'CHARSET':",
                                      "                except encinfo.EncodingLookupError as exc:\n                    if len(encoding) > 40:\n                        raise\n                    if encoding == 'CHARSET':")],
    # one expat error code of a msgid escapes
    'm21-xml-msgid-code5': [replace('lib/check/__init__.py', "            xml.check_fragment(message.msgid)\n        except xml.SyntaxError as exc:",
                                    "            xml.check_fragment(message.msgid)\n        except xml.SyntaxError as exc:\n            if exc.code == 5:\n                raise")],
    # the retry around rply's cache-directory race removed
    'm22-rply-cache-race': [git_revert('1dc67d2')],
    # behaviour-preserving rewrites: must stay quiet
    'p01-preserving-handler-order': [replace('lib/gettext.py', "    except intexpr.LexingError:\n        raise PluralExpressionSyntaxError\n    except intexpr.ParsingError:\n        raise PluralExpressionSyntaxError\n",
                                             "    except (intexpr.ParsingError, intexpr.LexingError):\n        raise PluralExpressionSyntaxError\n")],
    'p02-preserving-rename-and-comments': [replace('lib/check/__init__.py', "            except UnicodeDecodeError as exc:\n                broken_encoding = exc\n", "            except UnicodeDecodeError as decode_error:\n                # remember it for the finally clause\n                broken_encoding = decode_error\n"),
                                           replace('lib/cli.py', "def check_file(path, *, options):\n    if options.unpack_deb:", "def check_file(path, *, options):\n    # packages first\n    if options.unpack_deb is True or options.unpack_deb:")],
}

def main():
    names = sys.argv[1:] or sorted(MUTANTS)
    rows = []
    for name in names:
        root = '/tmp/c01-mut-' + name
        shutil.rmtree(root, ignore_errors=True)
        subprocess.run(['git', 'clone', '-q', REPO, root], check=True)
        subprocess.run(['git', 'config', 'user.email', 'm@example.invalid'], cwd=root); subprocess.run(['git', 'config', 'user.name', 'm'], cwd=root)
        try:
            for step in MUTANTS[name]:
                step(root)
        except Exception as exc:
            rows.append((name, 'NOT-APPLIED', repr(exc)[:200], '', 0))
            print(rows[-1], flush=True)
            continue
        t = time.time()
        p = subprocess.run(['/venv/bin/python', '-m', 'pytest', '-q', '-x', '-p', 'no:cacheprovider', '--timeout=900'], cwd=root, capture_output=True, text=True)
        suite = 'suite-pass' if p.returncode == 0 else 'SUITE-FAILS: ' + (p.stdout.strip().splitlines() or ['?'])[-1][:160]
        env = dict(os.environ, VERIF_REPO=root)
        t = time.time()
        q = subprocess.run([os.path.join(VERIF, 'check'), 'C01', 'quick'], cwd=VERIF, capture_output=True, text=True, env=env)
        wall = time.time() - t
        out = [l for l in q.stdout.splitlines() if not l.startswith('KNOWN-FINDING')]
        details = []
        for l in out:
            if l.startswith('VIOLATION') and 'replay=' in l:
                rp = l.split('replay=')[1].split()[0]
                try:
                    d = json.load(open(os.path.join(VERIF, rp)))
                    details.append((('NO-INPUT ' if 'no-failing-input-found' in l else '') + d.get('what', ''))[:230])
                except Exception:
                    details.append(l)
        verdict = 'rc=%d' % q.returncode
        rows.append((name, suite, verdict, ' || '.join(details[:4]) or (out[-1] if out else q.stderr[-300:]), round(wall)))
        print(rows[-1], flush=True)
        shutil.rmtree(root, ignore_errors=True)
    # back in step with /repo
    subprocess.run(['/venv/bin/python', os.path.join(VERIF, 'tools', 'translate', 'excmap2lean.py'), REPO], cwd=VERIF)
    print(json.dumps(rows, indent=1))

if __name__ == '__main__':
    main()
