#!/venv/bin/python
"""C04 — plural expressions are parsed and evaluated exactly as C/gettext would."""
import os, sys
sys.path.insert(0, os.path.join(os.path.dirname(os.path.abspath(__file__)), '..'))
import common
from gen import plural as G

def main():
    chk = common.Check('C04')
    import plural_common as P
    import plurallr_common as PL
    proved = chk.prove('I18n.Props.C04', generated=('intexpr', 'grammar', 'plurallr'))
    driver_ok = os.path.exists(common.driver_path()) and not any('untranslatable' in s for s in chk.lean.translation.values())
    strings = None
    if driver_ok:
        (_dis, _outs), strings = P.stream_parse(chk, 5 if chk.thorough else 4, 4 if chk.thorough else 3, 30000 if chk.thorough else 3000)
        strings = list(strings) + PL.hostile_strings()
        PL.stream_lr(chk, strings)
        PL.stream_lex(chk, strings)
        cases = P.build_cases(chk, 5000 if chk.thorough else 1000, depth=6 if chk.thorough else 5)
        P.stream_eval(chk, cases, per_case=8 if chk.thorough else 4)
    else:
        chk.broken.append({'kind': 'correspondence', 'stream': 'plural-*', 'problem': 'driver could not be rebuilt from the regenerated model'})
    mult = 4 if chk.broken else 1
    if strings is None:
        strings = list(P.token_strings(chk.rng, 4)) + list(P.char_strings(3)) + PL.hostile_strings()
    cex, tried = P.falsify_parse_eval(chk, (200000 if chk.thorough else 30000) * mult, strings)
    chk.evaluations += tried
    chk.coverage['falsifier'] = {'strings_vs_reference_parser_and_C_evaluator': tried, 'found': cex is not None}
    if cex is not None:
        chk.violation('plural expression parsed or evaluated differently from the C/plural.y reference', cex,
                      key=cex.get('kind') + ':' + cex.get('input', ''))
    elif chk.broken:
        chk.violation('proof obligation or correspondence no longer checks', {'broken': chk.broken}, no_input=True)
    chk.finish(
        level='proof',
        rule='token-kind sequences (all, up to the stated length), all strings over an 18-character lexer alphabet up to the stated length, '
             'grammar-directed expressions with minimal parentheses and random blanks, one/two-edit mutants, strings with hostile characters (non-ASCII digits/spaces/letters, controls); non-trivial = distinct accepted string of length > 1',
        trusted=['Lean 4.33 kernel', 'axioms: propext, Classical.choice, Quot.sound only',
                 'py2lean translator (evaluator), grammar2lean dump (declarations incl. the lexer regexes that Model/PluralLex interprets), plurallr2lean dump (rply LALR tables of the live parser; states/productions renumbered canonically)',
                 'hand-written lexer model and LR driver loop (rply LexerStream.next / LRParser.parse / _reduce_production + lib/intexpr.py action functions): tied to the real parser by the '
                 'plural-parse and plural-lr streams (outcome, tree, sequence of reductions); rply\'s table CONSTRUCTION is not modelled - its output is dumped and proved to accept exactly the declared grammar with the C trees',
                 'Spec.mathEval / Spec.D / Spec.Amb / Spec.Tokens / Spec.PluralY are my reading of ISO C and plural.y'],
        explanation='Proved for all inputs: eval_iff_C, eval_fails_iff, eval_error_kinds, eval_value_range (generated Evaluator = lazy Z semantics under the in-range side '
                    'condition, any width >= 1); grammar_pin, lr_tables_pin (dumped regexes readable and = the rules the lexer proofs are about, no flags, operator tables, table columns; by decide on the regenerated dumps); lex_complete_sound, '
                    'tokens_unique, lex_rejects_iff (lexer model = longest-lexeme tokenisation of plural.y yylex, unique, only blank and tab skipped); parse_sound + parse_complete = '
                    'parse_iff_derives (RD model returns e iff the stratified C grammar derives e, with the fuel the model really uses), derives_functional (one AST per token list); '
                    'accept_iff_plural_y (accepted token lists = language of plural.y\'s ambiguous grammar); parse_string_iff / accept_string_iff / reject_string_iff (end to end on strings, '
                    'no third outcome); lr_iff_parse / lr_iff_derives / lr_accept_iff_plural_y / lr_parse_string_iff (rply\'s LR driver over the LALR tables dumped from the live parser returns '
                    'e iff the C grammar derives e); lr_eq_parse / lr_never_crashes / lr_parse_string_eq (LR driver model = RD model as functions; the driver never reaches its internal crash outcome). '
                    'plural_y_is_declared_grammar / lr_language_is_declared_grammar (Spec.Amb = CFG language of the dumped productions = language of the dumped tables: rply\'s LALR construction validated for this grammar). '
                    'lex_regex_eq / lex_regex_iff_tokens / lex_regex_never_crashes (lexer interpreted from the dumped regexes inside rply\'s loop = hand-written lexer model = Spec.Tokens). '
                    'OUTSTANDING (test-level): regex-subset semantics, rply lexer loop, LR driver loop and action functions are hand-written readings of the Python source, tied by the plural-parse / plural-lr / plural-lex streams only.')

if __name__ == '__main__':
    common.main_wrapper(main)
