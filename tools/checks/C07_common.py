"""check_plurals: correspondence stream and falsifier."""
import collections, os, sys, types
sys.path.insert(0, os.path.join(os.path.dirname(os.path.abspath(__file__)), '..'))
import common
from gen import plural as G
import checker_harness as H
import plural_common as P

class FakeMessage:
    def __init__(self, msgid, msgctxt, msgid_plural, forms, obsolete, fuzzy):
        self.msgid, self.msgctxt, self.msgid_plural = msgid, msgctxt, msgid_plural
        self.msgstr = '' if msgid_plural is not None else (forms[0] if forms else '')
        self.msgstr_plural = {i: f for i, f in enumerate(forms)} if msgid_plural is not None else {}
        self.obsolete = obsolete
        self.flags = ['fuzzy'] if fuzzy else []
    def translated(self):
        if self.obsolete:
            return False
        if 'fuzzy' in self.flags:
            return False
        return self.msgstr or any(self.msgstr_plural.values())

WS_NEAR = ['\x0b', '\x0c', '\r', '\x1c', '\x1f', '\x85', '\xa0', '\u2003', '\u3000', '\n', '\u200b']
DIGIT_NEAR = ['\u0663', '\u00b2', '\uff11', '\u0967', '\u2460']

def boundary_expr(rng):
    """expressions whose period analysis gives (offset, period) around the 200-window, with and without a form index
    that is produced only outside the window"""
    A = rng.choice([100, 120, 150, 180, 190, 198, 199, 200, 201])
    Pd = rng.choice([2, 10, 50, 90, 99, 100, 101, 150, 198, 199])
    R = rng.randrange(Pd)
    if rng.random() < 0.4:
        # offset + period EXACTLY at the window edge (the analysis is used iff offset + period < 200), every comparison
        # operator, the constant on either side: an offset that is one too small, or `<` relaxed to `<=`, makes a claim
        # about a form index first produced at n = 200 or 201
        Pd = rng.choice([1, 1, 2, 3, 10, 50, 100, 150])
        A = max(0, 200 - Pd + rng.choice([-2, -1, 0, 0, 1, 2]))
        R = rng.randrange(Pd)
        op = rng.choice(['<', '<=', '>', '>=', '==', '!='])
        cmp_ = f'{A} {op} n' if rng.random() < 0.5 else f'n {op} {A}'
        k = rng.randrange(4)
        if Pd == 1 or k == 0:
            return cmp_
        if k == 1:
            return f'{cmp_} && n%{Pd} == {R}'
        if k == 2:
            return f'({cmp_}) ? (n%{Pd} == {R} ? 2 : 1) : 0'
        return f'n%{Pd} == {R} && {cmp_}'
    shape = rng.randrange(6)
    if shape == 0:
        return f'(n >= {A} && n%{Pd} == {R}) ? 1 : 0'
    if shape == 1:
        return f'n > {A} && n%{Pd} == {R}'
    if shape == 2:
        return f'n < {A} ? n%2 : n%{Pd} == {R} ? 2 : 1'
    if shape == 3:
        return f'n%{Pd} == {R} ? 1 : 0'
    if shape == 4:
        return f'n == {A} ? 2 : n%2'
    return f'(n%{Pd})/{max(R, 1)}'

def gen_header_value(rng, n_hint=None):
    """Plural-Forms values from a grammar: junk × nplurals × blanks × expression × terminator, near-miss characters for
    every character class of the header pattern and of the lexer, boundary expressions, malformed ones"""
    r = rng.random()
    exprs = list(G.REGISTRY_STYLE) + ['n', 'n/0', 'n%0', 'n-1', '1-n', 'n*4294967295', 'n+4294967295', 'n%3', 'n%2*2', 'n>5?1:0', '(n', 'n!', 'n?1', '',
                                       'n%7', 'n%200', 'n%199', 'n%198', '(n>100)*2', 'n==150?2:n%2', 'n<200?n%3:3', 'n>=200', 'n%4==3?3:n%2', '2', '7']
    if r < 0.15:
        e = G.render_min(G.gen_expr(rng, rng.randint(1, 4), [0, 1, 2, 3, 4, 5, 10, 11, 100, 198, 199, 200, 4294967295, 4294967296]), rng)
    elif r < 0.4:
        e = boundary_expr(rng)
    else:
        e = rng.choice(exprs)
    n = rng.choice([1, 1, 2, 2, 2, 3, 3, 4, 5, 6, 7, 10, 200, 0, '02', '', 'x', 3]) if n_hint is None or rng.random() < 0.3 else n_hint
    lj = rng.choice(['', '', '', '', ' ', 'x', 'nplurals=0; ', 'nplurals=2; plural=@; ', 'foo nplurals=', '\x1b[31m'])
    rj = rng.choice(['', '', '', '', ' ', '\\n', ' x', ';', 'nplurals=1; plural=0;'])
    sep = rng.choice([' ', ' ', ' ', '', '\t', '  ', ' \t '])
    term = rng.choice([';', ';', ';', ''])
    if rng.random() < 0.1:      # near misses of the pattern's character classes
        k = rng.randrange(4)
        if k == 0:
            sep = rng.choice(['', ' ']) + rng.choice(WS_NEAR) + rng.choice(['', ' '])
        elif k == 1:
            n = rng.choice(DIGIT_NEAR) if rng.random() < 0.5 else str(n) + rng.choice(DIGIT_NEAR)
        elif k == 2:
            e = e.replace(' ', rng.choice(WS_NEAR), 1) if ' ' in e else e + rng.choice(WS_NEAR)
        else:
            e = e + rng.choice(DIGIT_NEAR)
    s = f'{lj}nplurals={n};{sep}plural={e}{term}{rj}'
    if rng.random() < 0.08:
        s = P.mutate(rng, s)
    return s

LANGS = None

def languages():
    global LANGS
    if LANGS is None:
        from lib import ling
        LANGS = []
        for code in sorted(ling.get_primary_languages()):
            try:
                LANGS.append(ling.parse_language(code))
            except Exception:
                pass
    return LANGS

def gen_case(rng):
    from lib import ling
    lang = rng.choice(languages()) if rng.random() < 0.7 else None
    correct = lang.get_plural_forms() if lang is not None else None
    n_hint = None
    pfs = []
    r = rng.random()
    if r < 0.08:
        pfs = []
    else:
        if correct and rng.random() < 0.45:
            pfs = [rng.choice(correct)]
            if rng.random() < 0.3:
                pfs = [P.mutate(rng, pfs[0])]
        else:
            pfs = [gen_header_value(rng)]
        if rng.random() < 0.08:
            pfs.append(pfs[0] if rng.random() < 0.5 else gen_header_value(rng))
    msgs = []
    shape = rng.choice(['none', 'untranslated', 'one', 'one', 'one', 'two', 'mixed'])
    def forms(k):
        return ['x%d' % i for i in range(k)]
    if shape != 'none':
        ks = {'untranslated': [], 'one': [rng.choice([1, 2, 3, 4, 6])], 'two': [rng.choice([1, 2, 3]), rng.choice([2, 3, 4])],
              'mixed': [rng.choice([2, 3]), rng.choice([2, 3]), rng.choice([2, 3])]}[shape]
        if shape == 'untranslated':
            msgs.append(FakeMessage('a', None, 'as', ['', ''], False, False))
        for j, k in enumerate(ks):
            msgs.append(FakeMessage('m%d' % j, rng.choice([None, 'c\x1b']), 'ms', forms(k), rng.random() < 0.1, rng.random() < 0.1))
        if rng.random() < 0.3:
            msgs.insert(0, FakeMessage('plain', None, None, ['t'], False, False))
    is_template = rng.random() < 0.08
    return pfs, lang, correct, msgs, is_template

def run_impl(pfs, lang, msgs, is_template):
    from lib import tags
    checker, calls = H.make_checker()
    ctx = types.SimpleNamespace()
    ctx.metadata = collections.defaultdict(list)
    if pfs:
        ctx.metadata['Plural-Forms'] = list(pfs)
    ctx.language = lang
    ctx.file = msgs
    ctx.is_template = is_template
    try:
        checker.check_plurals(ctx)
    except Exception as exc:
        return 'err ' + type(exc).__name__, calls, None
    pre = ctx.plural_preimage
    if pre is None:
        ps = 'none'
    else:
        ps = '/'.join(f'{k}:' + ','.join(map(str, v)) for k, v in sorted(pre.items()))
    return 'ok ' + H.canon_calls(calls) + ' | ' + ps, calls, pre

def encode_case(pfs, correct, msgs, is_template):
    from lib import tags
    from lib.check.msgrepr import message_repr
    parts = ['checkplurals', 'run', '1' if is_template else '0', str(len(pfs))] + [H.hexs(p) for p in pfs]
    if correct is None:
        parts.append('N')
    else:
        parts.append(str(len(correct)))
        parts += [H.hexs(c) for c in correct]
        parts += [H.hexs(tags._escape(c)) for c in correct]
    parts.append(str(len(msgs)))
    for m in msgs:
        parts += ['1' if m.obsolete else '0', '1' if m.msgid_plural is not None else '0', '1' if m.translated() else '0',
                  str(len(m.msgstr_plural)), H.hexs(str(message_repr(m, template='({})')))]
    return ' '.join(parts)

def corpus_cases():
    """recorded witnesses: always run first"""
    m = [FakeMessage('a', None, 'as', ['x', 'y'], False, False)]
    return [
        (['nplurals=' + '1' * 4301 + '; plural=0;'], None, None, m, False),
        (['nplurals=2; plural=n != ' + '1' * 4301 + ';'], None, None, m, False),
        (['nplurals=3; plural=n/0;'], None, None, m, False),
        (['nplurals=3; plural=n/0;'], None, None, [], False),
    ]

def stream_check_plurals(chk, count):
    H.ready()
    lines, outs, metas = [], [], []
    cases = corpus_cases()
    while len(cases) < count:
        cases.append(gen_case(chk.rng))
    for pfs, lang, correct, msgs, is_template in cases:
        out, calls, pre = run_impl(pfs, lang, msgs, is_template)
        lines.append(encode_case(pfs, correct, msgs, is_template))
        outs.append(out)
        metas.append((pfs, lang, msgs, is_template, calls, pre, out))
    chk.note_cases({tuple(m[0]) for m in metas if m[0]})
    dis, mo = chk.stream('check-plurals', lines, outs)
    tagcount = collections.Counter()
    for m in metas:
        for name, _ in m[4]:
            tagcount[name] += 1
    chk.coverage['check_plurals_tags_seen'] = dict(tagcount)
    return dis, metas

# ------------------------------------------------------------------ the reference regex semantics against Python's `re`

def gen_search_subject(rng):
    """subjects for the header pattern: grammar-directed header values, their one-to-three-edit mutants, repeated and
    overlapping occurrences, near-miss characters for every class, partial prefixes"""
    r = rng.random()
    if r < 0.45:
        s = gen_header_value(rng)
    elif r < 0.6:
        s = gen_header_value(rng) + rng.choice(['', ' ', ';', 'n']) + gen_header_value(rng)
    elif r < 0.8:
        pieces = ['nplurals=', 'nplurals', 'plural=', 'plural', ';', ';;', ' ', '\t', '1', '0', '9', '10', 'n', '=', 'x', '\n', '\xa0', '\u0663']
        s = ''.join(rng.choice(pieces) for _ in range(rng.randint(1, 9)))
    else:
        s = 'nplurals=' + rng.choice(['1', '2', '10', '0', '01', '', '9' * 5]) + rng.choice([';', '', ';;', ' ;']) + \
            rng.choice(['', ' ', '\t \t', '\n', '\x0b']) + rng.choice(['plural=', 'plural =', 'Plural=', 'plural']) + \
            rng.choice(['n', '', ';', 'n;', 'n;;', 'n ;x', ' ', 'n>1;nplurals=1; plural=0'])
    for _ in range(rng.choice([0, 0, 1, 1, 2, 3])):
        s = P.mutate(rng, s)
    return s

def stream_header_search(chk, count):
    """`Spec.PluralFormsRe.search` on the dumped tree (native driver) vs the LIVE compiled pattern's own method"""
    from lib import gettext as lg
    fn = lg._parse_plural_forms
    subjects = ['', 'nplurals=1; plural=0', 'nplurals=1; plural=0;', 'nplurals=1; plural=0;;', 'nplurals=2; plural=(; nplurals=1; plural=0;',
                'nplurals=0; plural=0;', 'nplurals=12;\t \tplural= n ;x', 'nplurals=1;plural=;', 'xnplurals=1;plural=n', 'nplurals=1;plural=n\n']
    while len(subjects) < count:
        subjects.append(gen_search_subject(chk.rng))
    lines, outs = [], []
    hits = 0
    for s in subjects:
        lines.append('checkplurals research ' + H.hexs(s))
        try:
            m = fn(s)
            if m is None:
                outs.append('none')
            else:
                hits += 1
                g = lambda k: 'N' if m.group(k) is None else H.hexs(m.group(k))
                outs.append(f'ok {H.hexs(s[:m.start()])} {H.hexs(m.group(0))} {H.hexs(s[m.end():])} {g(1)} {g(2)}')
        except Exception as exc:
            outs.append('err ' + type(exc).__name__)
    dis, _ = chk.stream('header-search', lines, outs)
    chk.coverage['header_search'] = {'subjects': len(subjects), 'matched': hits, 'unmatched': len(subjects) - hits}
    return dis

# ------------------------------------------------------------------ falsifier: truth of every emitted claim, recomputed on the real code

def brute_image(ex, upto_period):
    """image of f on [0, 2^32): exact if the function is visibly periodic; else sampled"""
    vals = set()
    for n in list(range(0, 1200)) + [2 ** 31, 2 ** 32 - 1, 2 ** 32 - 2, 65535, 65536, 10 ** 6, 10 ** 9]:
        try:
            vals.add(ex(n))
        except (OverflowError, ZeroDivisionError):
            pass
    return vals

def falsify_case(meta):
    """C07 clauses checked directly on the observed tags of one real run; returns a replay dict or None"""
    import re
    from lib import gettext as lg
    pfs, lang, msgs, is_template, calls, pre, out = meta
    names = [c[0] for c in calls]
    def replay(kind, **kw):
        d = {'kind': kind, 'plural_forms': pfs, 'language': str(lang) if lang else None, 'is_template': is_template,
             'messages': [(m.msgid, m.msgid_plural, list(m.msgstr_plural.values()), m.obsolete, m.flags) for m in msgs], 'observed': out}
        d.update(kw)
        return d
    if out.startswith('err'):
        return replay('crash:' + out[4:])
    if is_template or len(pfs) != 1:
        return None
    pf = pfs[0]
    m = re.search(r'nplurals=([1-9][0-9]*);[ \t]*plural=([^;]+);?', pf)
    ref = None
    if m is not None:
        try:
            ref = P.ref_parse(m.group(2))
        except P.RefSyntaxError:
            ref = None
    has_syntax = any(n.startswith('syntax-error-in') for n in names)
    if (ref is None) != has_syntax:
        return replay('syntax-tag-iff', reference_parses=ref is not None)
    if ref is None:
        return None
    n = int(m.group(1))
    lj, rj = pf[:m.start()], pf[m.end():]
    if bool(lj) != ('leading-junk-in-plural-forms' in names) or bool(rj) != ('trailing-junk-in-plural-forms' in names):
        return replay('junk-tag-iff', ljunk=lj, rjunk=rj)
    for name, extra in calls:
        if name == 'leading-junk-in-plural-forms' and extra[0] != lj:
            return replay('junk-text', expected=lj)
        if name == 'trailing-junk-in-plural-forms' and extra[0] != rj:
            return replay('junk-text', expected=rj)
    # window witness
    first_bad = None
    for i in range(200):
        v = P.ref_eval(ref, i, 32)
        if v == 'overflow':
            first_bad = (i, f'f({i}): integer overflow'); break
        if v == 'zerodiv':
            first_bad = (i, f'f({i}): division by zero'); break
        if v >= n:
            first_bad = (i, f'f({i}) = {v} >= {n}'); break
    win_msgs = [str(extra[0]) for name, extra in calls if (name.startswith('arithmetic-error-in') or name.startswith('codomain-error-in')) and not str(extra[0]).startswith('f(x)')]
    if first_bad is None:
        if win_msgs:
            return replay('window-tag-spurious', messages=win_msgs)
    else:
        if win_msgs != [first_bad[1]]:
            return replay('window-tag-wrong', expected=first_bad[1], messages=win_msgs)
    # gap claims must be true for all n < 2^32
    ex = lg.parse_plural_expression(m.group(2))
    gap_msgs = [str(extra[0]) for name, extra in calls if name.startswith('codomain-error-in') and str(extra[0]).startswith('f(x) != ')]
    if gap_msgs:
        image = brute_image(ex, None)
        for g in gap_msgs:
            body = g[len('f(x) != '):]
            items = [t.strip() for t in body.split(',')]
            if '...' in items:
                lo = int(items[0]); hi = int(items[-1])
                hit = {v for v in image if lo <= v <= hi}
            else:
                hit = {int(t) for t in items} & image
            if hit:
                k = min(hit)
                wit = next(x for x in list(range(0, 1200)) + [2 ** 31, 2 ** 32 - 1, 2 ** 32 - 2, 65535, 65536, 10 ** 6, 10 ** 9] if _safe(ex, x) == k)
                return replay('gap-claim-false', claim=g, produced=k, at_n=wit)
    # nplurals
    counts = set()
    for msg in msgs:
        if not msg.obsolete and msg.msgid_plural is not None and msg.translated():
            counts.add(len(msg.msgstr_plural))
    want_incorrect = len(counts) == 1 and next(iter(counts)) != n
    if want_incorrect != ('incorrect-number-of-plural-forms' in names):
        return replay('nplurals-tag-iff', msgstr_counts=sorted(counts), nplurals=n)
    # clean declaration silent
    if first_bad is None:
        window_image = {P.ref_eval(ref, i, 32) for i in range(200)}
        if n <= 200 and window_image == set(range(n)) and not lj and not rj:
            bad = [nm for nm in names if 'plural-forms' in nm and not nm.startswith('unusual') and nm not in ('incorrect-number-of-plural-forms', 'inconsistent-number-of-plural-forms')]
            if bad:
                return replay('clean-declaration-not-silent', tags=bad)
    # registry's own declaration never unusual
    if lang is not None:
        correct = lang.get_plural_forms() or []
        if pf in correct and any(nm.startswith('unusual') for nm in names):
            return replay('registry-declaration-called-unusual')
    # unusual iff: the language is known and no registry declaration has this nplurals, or exactly one has and the declared
    # expression differs from it at an index the window reaches (reference parser/evaluator on both)
    if lang is not None:
        correct = lang.get_plural_forms()
        if correct is not None:
            same_n = []
            ok = True
            for c in correct:
                mc = re.fullmatch(r'nplurals=([1-9][0-9]*);[ \t]*plural=([^;]+);?', c)
                if mc is None:
                    ok = False; break
                try:
                    rc = P.ref_parse(mc.group(2))
                except P.RefSyntaxError:
                    ok = False; break
                if int(mc.group(1)) == n:
                    same_n.append(rc)
            if ok:
                reach = 200 if first_bad is None else first_bad[0]
                if len(same_n) == 0:
                    want = True
                elif len(same_n) == 1:
                    want = any(P.ref_eval(ref, i, 32) != P.ref_eval(same_n[0], i, 32) for i in range(reach))
                else:
                    want = False
                got = sum(1 for nm in names if nm.startswith('unusual'))
                if (got > 0) != want or got > 1:
                    return replay('unusual-tag-iff', expected_unusual=want, unusual_tags=got, registry=correct)
    elif any(nm.startswith('unusual') for nm in names):
        return replay('unusual-tag-iff', expected_unusual=False, registry=None)
    return None

def _safe(ex, n):
    try:
        return ex(n)
    except (OverflowError, ZeroDivisionError):
        return None
