#!/venv/bin/python
"""C09 — malformed MO files are rejected cleanly and never mis-read."""
import os, sys
sys.path.insert(0, os.path.join(os.path.dirname(os.path.abspath(__file__)), '..'))
import common
from gen import mo as G

def statement_on(P, data, checker_level):
    """C09's own statement on one byte string, on the REAL code, judged by the independent reference reader.
    → None | dict(kind=…, observed=…, expected=…)"""
    r = P.compare_with_reference(data)
    if r:
        return r
    if not checker_level:
        return None
    out = P.impl_check(data)
    if out.startswith('uncaught'):
        return {'kind': 'checker-uncaught-exception', 'observed': out, 'expected': 'invalid-mo-file / broken-encoding tags'}
    ref = P.ref_decode(data)
    loaded = out.split(' ')[0] == 'loaded=1'
    tags = out.split('tags=')[1]
    tags = [] if tags == '-' else tags.split(',')
    if ref[0] == 'invalid':
        ok = (not loaded) and tags and tags[0].startswith('invalid-mo-file:') and all(t == 'broken-encoding' for t in tags[1:])
        if not ok:
            return {'kind': 'malformed-file-not-reported', 'observed': out, 'expected': 'invalid-mo-file first, nothing but broken-encoding after it, no check_* run',
                    'reference': ref[1]}
    elif ref[0] == 'ok':
        if not loaded or tags:
            return {'kind': 'well-formed-file-misreported', 'observed': out, 'expected': 'loaded=1 tags=-'}
    elif ref[0] == 'decode':
        if not loaded or tags != ['broken-encoding']:
            return {'kind': 'broken-encoding-misreported', 'observed': out, 'expected': 'loaded=1 tags=broken-encoding'}
    return None

def falsify(chk, P, n_files, per_file_flips, n_random, extra_inputs=()):
    rng = chk.rng
    stats = {'inputs': 0, 'checker_level': 0}
    for data in extra_inputs:
        r = statement_on(P, data, True)
        if r:
            return dict(r, file_hex=data.hex(), source='correspondence disagreement'), stats
    files = [f[0] for f in P.wellformed_files(rng, n_files, bad_bytes=0.1)] + P.seed_files()
    mal = P.malformed_stream(rng, files, per_file_flips, n_random, all_truncations=True)
    for k, data in enumerate(mal):
        stats['inputs'] += 1
        lvl = (k % 5 == 0)
        stats['checker_level'] += lvl
        r = statement_on(P, data, lvl)
        if r:
            return dict(r, file_hex=data.hex(), replay='write bytes.fromhex(file_hex) to x.mo; lib.moparser.Parser("x.mo") / i18nspector x.mo'), stats
    return None, stats

def main():
    chk = common.Check('C09')
    import mo_common as P
    proved = P.prove(chk, 'I18n.Props.C09')
    extra = []
    if os.path.exists(common.driver_path()):
        nf = 250 if chk.thorough else 60
        files = [f[0] for f in P.wellformed_files(chk.rng, nf, bad_bytes=0.1)] + P.seed_files()
        mal = P.malformed_stream(chk.rng, files, 400 if chk.thorough else 120, 60000 if chk.thorough else 5000, word_files=None)
        dis, outs, kept = P.run_parse_stream(chk, 'mo-malformed', mal)
        extra += [kept[i] for i in dis[:30]]
        chk.note_cases({o for o in outs if o.startswith('err')})
        sub = mal[::(3 if chk.thorough else 6)]
        dis2, outs2 = P.run_check_stream(chk, 'mo-check', sub)
        chk.note_cases(set(outs2))
        # second attempt of the checker (encoding='ISO-8859-1') at the parser level
        dis3, outs3, kept3 = P.run_parse_stream(chk, 'mo-malformed-latin1', mal[1::(4 if chk.thorough else 8)], encodings=('ISO-8859-1',))
        extra += [kept3[i] for i in dis3[:30]]
    else:
        chk.broken.append({'kind': 'correspondence', 'stream': 'mo-malformed', 'problem': 'driver could not be rebuilt'})
    mult = 4 if chk.broken else 1
    cex, stats = falsify(chk, P, (300 if chk.thorough else 80) * mult, 300 if chk.thorough else 150, (150000 if chk.thorough else 20000) * mult, extra)
    chk.evaluations += stats['inputs']
    chk.coverage['falsifier'] = dict(stats, found=cex is not None)
    if cex is not None:
        chk.violation('a byte string is mis-read, accepted although malformed, or fails the loader in another way', cex, key=cex.get('kind'))
    elif chk.broken:
        chk.violation('proof obligation or correspondence no longer checks', {'broken': chk.broken}, no_input=True)
    chk.finish(
        level='proof',
        rule='well-formed files (as C08) and the shipped .mo files x every truncation point; every 32-bit header word and descriptor-table word x '
             '{0,1,len-1,len,len+1,len-4,len-8,2^31,2^32-1,orig+-1,revision variants}; 1-3 byte flips/overwrites (incl. NUL, EOT, "=", blank); random bytes behind '
             'either magic (small-word, small-byte and uniform styles); structurally broken catalogs (order, NUL structure, duplicates); non-trivial = distinct outcome line',
        trusted=['Lean 4.33 kernel', 'axioms: propext, Classical.choice, Quot.sound only',
                 'Spec.Encodes is my reading of the GNU MO format; the Python reference reader in tools/checks/mo_common.py is a second, independent reading',
                 'the tie of Mo.parse to lib/moparser.py: tools/translate/mo2lean.py (one Lean shape per Python construct) and the kit I18n.Mo.Py of CPython operations; the regenerated parser is PROVED equal to Mo.parse '
                 '(Props/C08Tie.lean); translation + kit are exercised against CPython by the *-generated streams; Mo.checkerLoad is tied to Checker.check by the mo-check stream only',
                 'CPython struct / memoryview / bytes.split semantics as modelled (clamped slices, IndexError on view[i], struct.error on size mismatch)',
                 'text decoding is a parameter (CodecDB); Latin1OK (ISO-8859-1 is ASCII-compatible and total) is assumed for the checker theorems'],
        explanation='TIE: Generated/MoParser.lean is regenerated from the current lib/moparser.py on every run and generated_parse_eq_model (Props/C08Tie.lean) proves it equal to Mo.parse for every byte string, '
                    'so the theorems below hold of the regenerated source (parse_total_closed_generated, parse_ok_iff_generated, reject_not_encodes_generated); a source change breaks that proof or the '
                    'translation (coverage.tie) and starts the falsifier. '
                    'Proved for all byte strings and codec databases: parse_total_closed (ok / SyntaxError / UnicodeDecodeError only: struct.error, unpack ValueError, '
                    'TypeError on bytes<None and every assert are unreachable), parse_sound + parse_ok_iff (accepted iff the bytes are a legal MO file of a well-formed '
                    'catalog whose text decodes; the returned entries are the decoding of the strings at the declared in-bounds offsets, each followed by NUL), '
                    'reject_not_encodes, reject_bad_magic, reject_major, reject_short_header, defect clauses (table word / string beyond end, missing terminator, '
                    'NUL structure, key order) => not Encodes, checker_cases, checker_closed, no_further_tags, checker_rejects_malformed, checker_accepts_wellformed, '
                    'broken_encoding_iff. Note: when an early entry fails to decode and a later one is malformed, the real checker emits invalid-mo-file followed by '
                    'broken-encoding (the finally clause); the model and theorems say exactly that.')

if __name__ == '__main__':
    common.main_wrapper(main)
