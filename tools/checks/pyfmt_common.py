"""C12: correspondence streams (`pyfmt-*`), an independent reading of the %-syntax, the running interpreter's `%` as oracle,
and the falsifier on the real code."""
import os, re, sys
sys.path.insert(0, os.path.join(os.path.dirname(os.path.abspath(__file__)), '..'))
import common
from gen import pyfmt as G

common.setup_repo_import()

_M = None
def M():
    """lib.strformat.python of the repository under test; if it cannot even be imported, a stand-in whose FormatString
    raises the import error (so that every input is a concrete crash rather than a harness failure)"""
    global _M
    if _M is None:
        try:
            from lib.strformat import python
            _M = python
        except BaseException as exc:
            import types
            err = exc
            class Error(Exception):
                pass
            class Broken:
                def __init__(self, s):
                    raise RuntimeError(f'lib.strformat.python cannot be imported: {type(err).__name__}: {err}')
            _M = types.SimpleNamespace(FormatString=Broken, Error=Error, Conversion=Broken, VariableWidth=Broken, VariablePrecision=Broken)
    return _M

def hexchars(s):
    return '.'.join('%x' % ord(c) for c in s) if s else '-'

# ------------------------------------------------------------------ the real code, canonically

def _entry(m, a, pos):
    if isinstance(a, m.VariableWidth):
        return f"W:{a.type}@{pos.get(id(a.parent), '?')}"
    if isinstance(a, m.VariablePrecision):
        return f"P:{a.type}@{pos.get(id(a.parent), '?')}"
    return f"C:{a.type}@{pos.get(id(a), '?')}"

def impl_parse(s, cls=None):
    """canonical one-liner of `FormatString(s)`: same grammar as Driver/PyFmt.lean `showResult`"""
    m = M()
    try:
        fmt = (cls or m.FormatString)(s)
    except Exception as exc:        # own Error subclasses and crashes alike: the class name is the outcome
        return 'err ' + type(exc).__name__
    try:
        items = list(fmt)
        pos = {id(x): i for i, x in enumerate(items)}
        its = ','.join(('L:' + hexchars(x)) if isinstance(x, str) else ('D:' + str(x.type)) for x in items)
        seq = ','.join(_entry(m, a, pos) for a in fmt.seq_arguments)
        mp = ';'.join(hexchars(k) + '=' + ','.join(_entry(m, a, pos) for a in args) for k, args in fmt.map_arguments.items())
        ws = ','.join(type(w).__name__ for w in fmt.warnings)
        sc = ','.join(str(pos.get(id(a), '?')) for a in fmt.seq_conversions)
        return f"ok items=[{its}] seq=[{seq}] map=[{mp}] warnings=[{ws}] sc=[{sc}]"
    except Exception as exc:
        return 'err attr:' + type(exc).__name__

class _NoWarn:
    cls = None

def nowarn_class():
    if _NoWarn.cls is None:
        m = M()
        class NoWarn(m.FormatString):
            def warn(self, *a, **k):
                pass
        _NoWarn.cls = NoWarn
    return _NoWarn.cls

# ------------------------------------------------------------------ independent reading of the syntax (from the library reference, §printf-style String Formatting)

_SPEC = re.compile(r'([#0\- +]*)(\*|[0-9]*)(?:\.(\*|[0-9]*))?([hlL]?)', re.S)

def ref_scan(s):
    """(items, complete): items are ('lit', text) and ('dir', {...}); complete is False when a `%` does not start a
    well-formed conversion specification `%[(key)][flags][width][.precision][length]type` (scanning stops there).
    The type character is *not* judged here (any character)."""
    items, i, n = [], 0, len(s)
    lit = []
    while i < n:
        if s[i] != '%':
            lit.append(s[i]); i += 1
            continue
        start = i
        i += 1
        key = None
        if i < n and s[i] == '(':
            depth, j = 1, i + 1
            while j < n and depth:
                if s[j] == '(': depth += 1
                elif s[j] == ')': depth -= 1
                j += 1
            if depth:
                break
            key = s[i + 1:j - 1]
            i = j
        m = _SPEC.match(s, i)
        i = m.end()
        if i >= n:
            break
        conv = s[i]
        i += 1
        if lit:
            items.append(('lit', ''.join(lit))); lit = []
        items.append(('dir', {'key': key, 'flags': m.group(1), 'width': m.group(2), 'prec': m.group(3), 'length': m.group(4), 'conv': conv,
                              'text': s[start:i]}))
    else:
        if lit:
            items.append(('lit', ''.join(lit)))
        return items, True
    return items, False

def ref_plain(s):
    """the domain of C12: every conversion specification whose type character is `%` is exactly `%%`"""
    items, _ = ref_scan(s)
    return all(d['text'] == '%%' for k, d in items if k == 'dir' and d['conv'] == '%')

INT_CONVS = 'diouxX'
NOALLOC_PREC = 'srac'
CAP = 10 ** 4
INT31 = 2 ** 31 - 1
SSZ63 = 2 ** 63 - 1

def _num(t):
    return int(t) if t else 0

def _prec_danger(p, conv):
    if p <= CAP or p > INT31:
        return False
    if conv in NOALLOC_PREC:
        return False
    if conv in INT_CONVS and p > INT31 - 3:
        return False
    return True

def oracle_safe(s, args):
    """may `s % args` be evaluated without allocating more than ~CAP characters per directive?  Over-approximates."""
    items, _ = ref_scan(s)
    dirs = [d for k, d in items if k == 'dir']
    has_star = any(d['width'] == '*' or d['prec'] == '*' for d in dirs)
    for d in dirs:
        if d['width'] not in ('', '*'):
            w = _num(d['width'])
            if CAP < w <= SSZ63:
                return False
        if d['prec'] not in (None, '', '*'):
            if _prec_danger(_num(d['prec']), d['conv']):
                return False
    if not has_star:
        return True
    if isinstance(args, tuple):
        idx = 0
        for d in dirs:
            if d['text'] == '%%':
                continue
            if d['width'] == '*':
                v = args[idx] if idx < len(args) else None
                idx += 1
                if type(v) is int and CAP < abs(v) <= SSZ63 + 1:
                    return False
            if d['prec'] == '*':
                v = args[idx] if idx < len(args) else None
                idx += 1
                if type(v) is int and _prec_danger(v, d['conv']):
                    return False
            idx += 1
        return True
    vals = list(args.values()) if isinstance(args, dict) else [args]
    return not any(type(v) is int and CAP < abs(v) <= SSZ63 + 1 for v in vals)

# ------------------------------------------------------------------ the oracle: the running interpreter's `%`

def classify(exc):
    n, msg = type(exc).__name__, str(exc)
    if n == 'TypeError':
        if msg.startswith('not enough arguments'): return 'TypeError:not-enough'
        if msg.startswith('not all arguments'): return 'TypeError:not-all'
        if msg.startswith('format requires a mapping'): return 'TypeError:mapping'
        if msg.startswith('* wants int'): return 'TypeError:star'
        return 'TypeError:arg'
    if n == 'ValueError':
        if msg.startswith('incomplete format key'): return 'ValueError:key'
        if msg.startswith('incomplete format'): return 'ValueError:incomplete'
        if msg.startswith('unsupported format character'): return 'ValueError:unsupported'
        if msg.startswith('width too big'): return 'ValueError:width'
        if msg.startswith('precision too big'): return 'ValueError:precision'
        return 'ValueError:' + msg[:30]
    return n

def oracle(s, args):
    try:
        s % args
    except Exception as exc:
        return 'err ' + classify(exc)
    return 'ok'

class AnyMap(dict):
    """a mapping that has every key"""
    def __init__(self, v):
        super().__init__()
        self.v = v
    def __missing__(self, key):
        return self.v

VALUES = {'int': (1, 0, -7, 65), 'float': (1.5, -0.25, 1e300), 'chr': ('x', 'é', 65), 'str': ('abc', '', 'ü'),
          'object': (None, 'r', 3.5), 'star': (0, 3, -2, 12)}

def args_from_signature(fmt, variant=0):
    """arguments of the shape and types the parser reports: a tuple for unnamed specifications, a dict for named ones,
    an int for every `*`"""
    m = M()
    def val(a):
        if isinstance(a, (m.VariableWidth, m.VariablePrecision)):
            pool = VALUES['star']
            if a.type != 'int':
                return None
        else:
            pool = VALUES.get(a.type)
            if pool is None:
                return None
        return pool[variant % len(pool)]
    if fmt.map_arguments:
        return {k: val(uses[0]) for k, uses in fmt.map_arguments.items()}
    return tuple(val(a) for a in fmt.seq_arguments)

DOCUMENTED = ('ArgumentIndexingMixture', 'ArgumentTypeMismatch', 'WidthRangeError', 'PrecisionRangeError')

def reason_holds(name, s):
    """is the documented reason the parser gave true of the string (by the independent reading)?"""
    items, _ = ref_scan(s)
    dirs = [d for k, d in items if k == 'dir']
    if name == 'ArgumentIndexingMixture':
        named = any(d['key'] is not None for d in dirs)
        unnamed = any((d['key'] is None and d['conv'] != '%') or d['width'] == '*' or d['prec'] == '*' for d in dirs)
        return named and unnamed
    if name == 'ArgumentTypeMismatch':
        cls = {}
        tp = lambda c: 'int' if c in 'diouxX' else 'float' if c in 'eEfFgG' else 'obj' if c in 'ra' else c
        for d in dirs:
            if d['key'] is not None:
                cls.setdefault(d['key'], set()).add(tp(d['conv']))
        return any(len(v) > 1 for v in cls.values())
    if name == 'WidthRangeError':
        return any(d['width'] not in ('', '*') and int(d['width']) > INT31 for d in dirs)
    if name == 'PrecisionRangeError':
        # "precision above 2^31-1"; for the integer conversions CPython's own limit is 2^31-4 ("precision too large")
        return any(d['prec'] not in (None, '', '*') and (int(d['prec']) > INT31 or (d['conv'] in INT_CONVS and int(d['prec']) > INT31 - 3))
                   for d in dirs)
    return False

def candidates(s):
    """argument objects that satisfy every well-formed string: ints are accepted by every conversion"""
    k = s.count('%') + s.count('*')
    out = [tuple([1] * j) for j in range(k + 1)]
    out += [AnyMap(1), 1, tuple(['x'] * s.count('%'))]
    return out

def check_property(s, stats=None):
    """C12 evaluated on the real code for one string, with the running interpreter as oracle.
    Returns None or a replay dict (with 'key' for the known-finding match)."""
    m = M()
    short = s if len(s) < 300 else s[:120] + f'…[{len(s)} chars]…' + s[-60:]
    rep = {'input': short, 'input_hex': hexchars(s) if len(s) < 2000 else None,
           'replay': f'import lib.strformat.python as M; M.FormatString({s!r})' if len(s) < 2000 else 'see input'}
    def count(k):
        if stats is not None:
            stats[k] = stats.get(k, 0) + 1
    try:
        fmt = m.FormatString(s)
        got = 'ok'
    except m.Error as exc:
        fmt = None
        got = type(exc).__name__
    except Exception as exc:
        rep.update(kind='crash', observed=f'{type(exc).__name__}: {exc}'[:200], expected="only the parser's own Error classes",
                   key=f'crash:{type(exc).__name__}:{s[:80]}')
        return rep
    plain = ref_plain(s)
    if not plain:
        count('outside-domain')
        return None
    if got == 'ok':
        tried = 0
        for variant in range(3):
            try:
                args = args_from_signature(fmt, variant)
            except Exception as exc:
                rep.update(kind='signature-unusable', observed=f'{type(exc).__name__}: {exc}'[:200], expected='seq_arguments / map_arguments with .type',
                           key='signature:' + s[:80])
                return rep
            if not oracle_safe(s, args):
                count('accepted-not-run(allocation)')
                break
            tried += 1
            r = oracle(s, args)
            if r == 'ok' and isinstance(args, tuple) and len(args) == 1 and not isinstance(args[0], (tuple, dict, list)):
                # exactly one unnamed argument: the bare value is accepted as well
                r = oracle(s, args[0])
                if r != 'ok':
                    args = args[0]
            if r != 'ok':
                rep.update(kind='accepted-but-cpython-fails', observed=f'{s!r} % {args!r} -> {r}'[:300],
                           expected='formats successfully with arguments of the reported shape and types', args=repr(args)[:300],
                           key='accept:' + _class_key(s, r))
                return rep
        if tried:
            count('accepted-formatted')
        return None
    # rejected
    if got in DOCUMENTED:
        if reason_holds(got, s):
            count('rejected-documented')
            return None
        # the reason given is not true of the string: a violation iff CPython can format it
    if not oracle_safe(s, ()):
        count('rejected-not-run(allocation)')
        return None
    for args in candidates(s):
        if oracle(s, args) == 'ok':
            rep.update(kind='rejected-but-cpython-formats', observed=f'FormatString raises {got}; {s!r} % {args!r} succeeds'[:300],
                       expected='rejected only for mixing named/unnamed, one key with two types, width or precision above 2^31-1',
                       key='reject:' + got + ':' + s[:80])
            return rep
    count('rejected-malformed')
    return None

def _class_key(s, r):
    """the input class of an accepted-but-fails case: precision boundary of the integer conversions, else the string"""
    items, _ = ref_scan(s)
    for k, d in items:
        if k == 'dir' and d['conv'] in INT_CONVS and d['prec'] not in (None, '', '*') and INT31 - 3 < int(d['prec']) <= INT31 and r == 'err OverflowError':
            return 'int-precision-above-INT_MAX-3'
    return s[:80]

# ------------------------------------------------------------------ spec-vs-oracle inputs

def token(v):
    if type(v) is int: return 'i%d' % v
    if type(v) is float: return 'f'
    if type(v) is str: return 's%d' % len(v)
    return 'o'

def args_token(args):
    if isinstance(args, tuple):
        return 'T:' + ','.join(token(v) for v in args)
    if isinstance(args, dict):
        return 'D:' + ';'.join(hexchars(k) + '=' + token(v) for k, v in args.items())
    return 'S:' + token(args)

def gen_args(rng, s):
    """arguments that mostly fit the string (by the independent reading), then perturbed"""
    items, _ = ref_scan(s)
    dirs = [d for k, d in items if k == 'dir' and d['text'] != '%%']
    def fit(conv):
        r = rng.random()
        if r < 0.12:
            return G.gen_value(rng)[0]
        if conv in 'diu':
            return rng.choice([1, -5, 10 ** 30, 2.5]) if r < 0.9 else 'a'
        if conv in 'oxX':
            return rng.choice([1, 255, -3])
        if conv in 'eEfFgG':
            return rng.choice([1.5, 2, -0.5, 2 ** 1024 - 2 ** 970 - 1, 2 ** 1024 - 2 ** 970])
        if conv == 'c':
            return rng.choice(['x', 65, 0x10ffff, 0x110000, -1, 'ab', ''])
        return rng.choice(['abc', 3, None, 1.5, ''])
    def star(kind, conv):
        r = rng.random()
        if r < 0.7:
            return rng.randint(-12, 12)
        if kind == 'w':
            return rng.choice([CAP, -CAP, SSZ63 + 1, -SSZ63 - 2, SSZ63 + 2, 2 ** 70, 'x', None, 1.5])
        return rng.choice([CAP, INT31 + 1, -INT31 - 1, -INT31 - 2, INT31, INT31 - 2, INT31 - 3, 2 ** 70, 'x', None, 1.5])
    named = [d for d in dirs if d['key'] is not None]
    mode = rng.random()
    if named and mode < 0.8:
        args = {}
        for d in named:
            if rng.random() < 0.93:
                args[d['key']] = fit(d['conv'])
        if rng.random() < 0.1:
            args['extra'] = 1
        return args
    if mode < 0.9 or not dirs:
        vs = []
        for d in dirs:
            if d['width'] == '*': vs.append(star('w', d['conv']))
            if d['prec'] == '*': vs.append(star('p', d['conv']))
            vs.append(fit(d['conv']))
        r = rng.random()
        if r < 0.08 and vs:
            vs.pop(rng.randrange(len(vs)))
        elif r < 0.16:
            vs.insert(rng.randrange(len(vs) + 1), G.gen_value(rng)[0])
        elif r < 0.2:
            return {}
        return tuple(vs)
    r = rng.random()
    if r < 0.5:
        v = fit(dirs[0]['conv'])
        return v if not isinstance(v, (tuple, dict, list)) else 1
    return rng.choice([{}, {'a': 1}, (), (1,), 1, 'abc', None, 1.5])

def modelable(args):
    """arguments the reference model abstracts faithfully: tuple / dict with str keys / a single non-mapping non-tuple value;
    values int (not bool), float, str, or one of a few inert objects"""
    def okv(v, top=False):
        if type(v) in (int, float, str) or v is None or v is object:
            return True
        return (not top) and (v == () or v == [] or v == {}) and type(v) in (tuple, list, dict)
    if isinstance(args, tuple):
        return all(okv(v) for v in args)
    if isinstance(args, dict):
        return all(type(k) is str and okv(v) for k, v in args.items())
    return okv(args, top=True)

# ------------------------------------------------------------------ input families

def corpus():
    d = os.path.join(common.VERIF, 'corpus', 'C12')
    out = []
    if os.path.isdir(d):
        for f in sorted(os.listdir(d)):
            with open(os.path.join(d, f), encoding='utf-8', newline='', errors='surrogatepass') as fh:
                out.append(fh.read())
    return out

def stream_inputs(chk, n_single, n_multi, n_bad, short_len):
    rng = chk.rng
    fam = {}
    fam['boundary'] = G.boundary_strings()
    fam['context'] = G.context_strings()
    fam['short'] = G.short_strings(short_len)
    fam['single'] = G.singles(rng, n_single)
    multi = []
    for _ in range(n_multi):
        multi.append(G.gen_named_clash(rng) if rng.random() < 0.12 else G.gen_string(rng))
    fam['multi'] = multi
    bad = []
    for _ in range(n_bad):
        r = rng.random()
        if r < 0.3:
            bad.append(G.gen_garbage(rng))
        else:
            s = rng.choice(multi) if multi and r < 0.8 else G.single(rng.randrange(G.n_single()))
            s = G.mutate(rng, s)
            if rng.random() < 0.3:
                s = G.mutate(rng, s)
            bad.append(s)
    fam['malformed'] = bad
    return fam

def run_parse_stream(chk, fam):
    res = {}
    for name, strings in fam.items():
        lines = ['pyfmt parse ' + hexchars(s) for s in strings]
        outs = [impl_parse(s) for s in strings]
        dis, _model = chk.stream('pyfmt-' + name, lines, outs)
        res[name] = [strings[i] for i in dis]
        chk.note_cases({s for s, o in zip(strings, outs) if o.startswith('ok ') and 'seq=[] map=[]' not in o})
    return res

def run_nowarn_stream(chk, strings):
    lines = ['pyfmt parse-nowarn ' + hexchars(s) for s in strings]
    outs = [impl_parse(s, nowarn_class()) for s in strings]
    dis, _ = chk.stream('pyfmt-nowarn', lines, outs)
    return [strings[i] for i in dis]

def run_plain_stream(chk, strings):
    """the model's `plainPercent` (the hypothesis of the theorems) against the independent reading of the domain"""
    lines = ['pyfmt plain ' + hexchars(s) for s in strings]
    outs = []
    for s in strings:
        # the model's definition follows the parser's scanner: it stops at the first specification the scanner refuses
        items, complete = ref_scan(s)
        plain = True
        for k, d in items:
            if k == 'dir':
                if d['conv'] not in G.CONVERSIONS:
                    break
                if d['conv'] == '%' and d['text'] != '%%':
                    plain = False
                    break
        outs.append('plain' if plain else 'not-plain')
    dis, _ = chk.stream('pyfmt-plain', lines, outs)
    return [strings[i] for i in dis]

def run_oracle_stream(chk, strings, per_string=2):
    """`Spec.CPyPercent.format` against the running interpreter's `%` on (format, arguments) pairs"""
    rng = chk.rng
    lines, outs, pairs = [], [], []
    skipped = 0
    for s in strings:
        for _ in range(per_string):
            try:
                args = gen_args(rng, s)
            except Exception:
                continue
            if not modelable(args):
                continue
            if not oracle_safe(s, args):
                skipped += 1
                continue
            lines.append('pyfmt cpy ' + hexchars(s) + ' ' + args_token(args))
            outs.append(oracle(s, args))
            pairs.append((s, args))
    dis, _ = chk.stream('pyfmt-oracle', lines, outs)
    chk.coverage['streams']['pyfmt-oracle']['skipped_for_allocation'] = chk.coverage['streams']['pyfmt-oracle'].get('skipped_for_allocation', 0) + skipped
    return [pairs[i] for i in dis]

def shrink(s, kind, limit=3000):
    """delete chunks while the same kind of violation remains (delta debugging, bounded)"""
    cur, calls = s, 0
    changed = True
    while changed and calls < limit:
        changed = False
        for size in (16, 8, 4, 2, 1):
            i = 0
            while i < len(cur) and calls < limit:
                cand = cur[:i] + cur[i + size:]
                calls += 1
                r = check_property(cand)
                if r is not None and r.get('kind') == kind:
                    cur, changed = cand, True
                else:
                    i += 1
    return cur

def falsify(chk, strings, budget, stats):
    """the property on the real code; returns (first genuine counterexample (shrunk) or None, tried)"""
    tried = 0
    seen = set()
    for s in strings:
        if tried >= budget:
            break
        if s in seen:
            continue
        seen.add(s)
        tried += 1
        rep = check_property(s, stats)
        if rep is None:
            continue
        if not chk.match_known(rep['key']):
            small = shrink(s, rep['kind'])
            if small != s:
                rep2 = check_property(small)
                if rep2 is not None and rep2.get('kind') == rep['kind']:
                    rep2['found_as'] = rep['input']
                    rep = rep2
        key = rep.pop('key')
        if chk.violation(rep['kind'], rep, key=key):
            return rep, tried
        stats['known-finding'] = stats.get('known-finding', 0) + 1
    return None, tried
