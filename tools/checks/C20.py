#!/venv/bin/python
"""C20 — charset names are classified consistently and the extra codecs are lossless."""
import os, sys
sys.path.insert(0, os.path.join(os.path.dirname(os.path.abspath(__file__)), '..'))
import common
from gen import charset as G

def main():
    chk = common.Check('C20')
    import charset_common as C
    proved = chk.prove('I18n.Props.C20', generated=('charset', 'charsetcns', 'iconv', 'encodings', 'ling'), extra_targets=())
    # the tie by translation (first part): lib/iconv.py regenerated from the current source and proved equal to the loop model (Props/C20Tie.lean)
    tie_ok = common.prove_tie(chk, 'I18n.Props.C20Tie', ('iconv', 'encodings', 'ling'),
                              '_decode_dl / _encode_dl / decode / encode regenerated from the current lib/iconv.py, or the constants and functions regenerated '
                              'from the current lib/encodings.py, or Language.get_unrepresentable_characters regenerated from lib/ling.py, are no longer proved equal to the model of Model/Charset.lean (generated_*_eq_model and the '
                              'theorems restated about them)')
    problems = ' '.join(p for p in chk.lean.problems if not p.startswith('I18n.Props.C20Tie'))
    driver_ok = os.path.exists(common.driver_path()) and not any('untranslatable' in s for k, s in chk.lean.translation.items() if k not in ('iconv', 'encodings', 'ling')) \
        and 'Driver' not in problems and 'I18n.Model' not in problems and 'I18n.Generated' not in problems
    E, I, L = C.mods()
    if C.IMPORT_ERROR:
        chk.broken.append({'kind': 'import', 'problem': C.IMPORT_ERROR})
    big = chk.thorough or bool(chk.broken)
    unsafe = C.binding_safety_probe(chk)
    if unsafe is not None:
        # the binding tells iconv more than it allocated: nothing below may let the real iconv write through it
        key = unsafe.pop('key')
        chk.violation(unsafe['kind'], unsafe, key=key)
        chk.coverage['aborted'] = 'the iconv binding overruns its buffer under a scripted iconv; the real-iconv streams were not run'
        chk.finish(level='proof', rule='scripted iconv probe only', trusted=[], explanation=EXPLANATION)
    try:
        tool_names = sorted(set(E._extra_encodings) | set(E._portable_encodings))
    except Exception:
        tool_names = []
    known = G.known_names(C.python_codec_names(), tool_names + G.EXTRA_CODECS)
    names = G.name_stream(chk.rng, known, 4000 if big else 700)
    sizes = dict(charmap_bytes=3000 if big else 500, charmap_texts=3000 if big else 500, scripts=20000 if big else 3000,
                 real_loop=1200 if big else 150, unrep=20000 if big else 3000, check_names=1500 if big else 150,
                 euctw=12000 if big else 1500, euctw_all=big)
    corpus_names, C.CORPUS_BYTES[:] = C.corpus_inputs()
    names = [n for n in corpus_names if n not in set(names)] + names
    fam = C.build_streams(chk, names, sizes)
    if driver_ok:
        dis = C.run_streams(chk, fam, generated_ok=tie_ok)
    else:
        dis = {}
        chk.broken.append({'kind': 'correspondence', 'stream': 'charset-*', 'problem': 'driver could not be rebuilt from the regenerated model'})
    chk.note_cases(l for lines, _ in fam.values() for l in lines)

    # ---- falsifier: the property itself on the real code (always; larger when something is broken or in the thorough tier)
    ships = C.vanilla_ships(sorted(set(G.GETTEXT_PORTABLE)))
    fs = dict(codec_bytes=6000 if big else 700, codec_texts=4000 if big else 500, exhaustive=chk.thorough, cli=40 if big else 10,
              loop_scripts=15000 if big else 2500, loop_real=600 if big else 80, unrep_e2e=60 if big else 12)
    cex = []
    cex += C.falsify_test_set(chk, names)[:2]          # first: it names the test set the code implements
    cex += C.falsify_classification(chk, names, ships)
    cex += C.falsify_codecs(chk, fs)
    cex += C.falsify_loop(chk, fs)
    charsets = sorted({n for n in G.GETTEXT_PORTABLE if C.usable_text_codec(n)} | set(G.EXTRA_CODECS)
                      | {'utf-16', 'utf-7', 'idna', 'punycode', 'cp037', 'iso-8859-16', 'mac-roman', 'hz', 'iso2022_jp', 'unicode_escape'})
    cex += C.falsify_unrepresentable(chk, charsets, fs)
    cex += C.falsify_loader(chk, names)
    chk.evaluations += sum(sum(x for x in v.values() if isinstance(x, int)) for v in chk.coverage.get('falsifier', {}).values() if isinstance(v, dict))
    seen = set()
    fresh = 0
    for c in cex:
        key = c.pop('key')
        if key in seen:
            continue
        seen.add(key)
        if chk.violation(c['kind'], c, key=key):
            fresh += 1
        if fresh >= 5:
            break
    chk.coverage['falsifier']['counterexamples'] = len(cex)
    chk.coverage['names'] = {'known': len(known), 'streamed': len(names)}
    if not chk.violations and chk.broken:
        chk.violation('proof obligation or correspondence no longer checks', {'broken': chk.broken[:8]}, no_input=True)
    chk.finish(
        level='proof',
        rule='names: every codec name known to Python (modules, alias keys and values), gettext (46 names) and the tool, in the spellings '
             'people write (case, -/_ swaps, iso_ prefix), a garbage list, and random one/two-edit mutants; bytes: every single byte, every '
             'byte in context, random strings of length 1..257 (ASCII-heavy, high-heavy, control-heavy), for EUC-TW all lead bytes x sampled '
             'trail bytes (all 94x94 in thorough), four-byte plane sequences, truncations and bad trail bytes; texts: the codec\'s own '
             'repertoire mixed with outsiders (surrogates, non-BMP, U+FFFE); scripted iconv: any expansion ratio, 0..7 E2BIG rounds, '
             'errors at any offset, short reads, non-multiple-of-4 output, failing reset/flush calls; real iconv: 16 encodings incl. '
             'stateful ones; every language with a character list x every portable/extra charset. non-trivial = distinct protocol line',
        trusted=['Lean 4.33 kernel', 'axioms: propext, Classical.choice, Quot.sound only',
                 'tools/translate/charset2lean.py (dumps lib.encodings tables as loaded, data/encodings read independently, charmaps, '
                 'CodecFacts of the running interpreter incl. per-codec sensitivity to the test set, the alias table and the encodings modules, '
                 'single-byte tables of the system iconv); tools/translate/charsetcns2lean.py (every answer of the system iconv for EUC-TW: '
                 '17 x 8836 units, 1.1 million characters)',
                 'CPython: codecs.lookup / charmap_decode / charmap_build / charmap_encode are modelled from their C source and tied by the '
                 'charset-charmap stream; one registry name = one codec',
                 'glibc iconv(3): the contract (never writes more than *outbytesleft; E2BIG iff the output does not fit; on EILSEQ/EINVAL the '
                 'offending sequence is left unconsumed) is ASSUMED by the loop theorems, and the end-to-end theorems use a reference iconv '
                 '(Spec/CharsetIconv.lean: unit by unit, room checked first); both observed, not proved, on every call of the run',
                 'CPython codecs.lookup: modelled (C normalisation, encodings.search_function) and tied on the table and by the registry stream',
                 'tools/translate/iconv2lean.py + tools/translate/pytr (the translated subset of lib/iconv.py) and the kit Model/CharsetPy.lean: what each '
                 'ctypes operation is taken to be (c_size_t cells below 2^64, sizeof(wchar_t) = 4, pointers as the buffer they were made from, the reset '
                 'call selecting the round by the out-count of its iteration, errno as ghost state, a charset name is ASCII, no lone surrogates)',
                 'tools/translate/encodings2lean.py + tools/translate/pytr (the translated subset of lib/encodings.py) and the kit Model/EncodingsPy.lean '
                 '(str.lower/upper on ASCII letters, the module tables / codec registry / bytes.decode outcomes / charmap files as parameters, the CPython '
                 'exception hierarchy, charmap_build = encLookup)',
                 'tools/translate/ling2lean.py and the kit Model/LingPy.lean (a Language object is its three codes; _get_characters and str.encode are parameters; '
                 'UnicodeError catches UnicodeEncodeError; the reason test of the iconv(1) fall-back)',
                 'the correspondence harness (tools/checks/charset_common.py, Driver/Charset.lean)'],
        explanation=EXPLANATION)

EXPLANATION = (
    'Proved (Props/C20.lean). Finite quantifier, over the CodecFacts table regenerated each run (every codec name known to Python, gettext '
    'or the tool): ascii_compatible_law, unknown_law, portable_any_law, proposal_law, model_matches_tool, portable_law_partial; '
    'portable_law_refuted (KOI8-T, known finding, replayed on the real code each run). Structural reasons behind the table laws: '
    'ascii_untested_bytes, ascii_verdict_bytewise (the verdict looks at the tested bytes only), ascii_test_set_sensitivity (who can tell a '
    'widened / narrowed test set: VISCII, ISO-2022-KR / cp864 %, UTF-7 +, HZ ~; nothing else), registry_model_matches (a model of '
    'codecs.lookup: C normalisation, alias table, encodings.<module>, the tool\'s search function), proposal_via_registry. For all names: '
    'proposal_portable, proposal_sound, proposal_same_codec_every_name (under the registry model). Pins: repertoire_pin, gettext_list_pin, '
    'tables_pin, codec_search_extra. Charmap codecs, all tables / byte strings / texts: charmap_decode_total, charmap_encode_total, '
    'charmap_roundtrip, charmap_encode_decode (+ _needs_trie), charmap_bijection, charmap_ok_iff, charmap_encode_error_position, '
    'charmap_decode_error_position; extra_charmaps_lossless, extra_charmaps_bijective, extra_charmaps_agree_iconv, koi8t_table_roundtrip, '
    'koi8t_table_bijective. EUC-TW over the tables of the system iconv (Generated/CharsetCns*: every unit r c / 8E A0+p r c, p = 1..16, and '
    'every character U+0080..U+10FFFF asked of glibc; the kernel passes over all of it in Lemmas/CharsetCnsK1..K7): euctw_tables_pin, '
    'euctw_decode_total, euctw_roundtrip (iff no redundant unit), euctw_noninjective_exactly (redundant = four-byte plane 1, and the one unit '
    '8E A3 A1 B8), euctw_encode_short_form, euctw_encode_decode, euctw_encode_drops_tags; over abstract tables: euctw_roundtrip_partial, '
    'euctw_roundtrip_refuted, euctw_decode_error_position. iconv binding, every iconv behaviour: iconv_told_le_allocated, '
    'iconv_loop_schedule; under the assumed POSIX contract: iconv_loop_terminates, iconv_loop_rounds_log, iconv_loop_buffer_bound, '
    'iconv_loop_returns_produced, iconv_loop_error_span (+ the encode versions); non_doubling_loop_diverges; iconv_wchar_out_of_range. '
    'TIE BY TRANSLATION (Props/C20Tie.lean): lib/iconv.py _decode_dl / _encode_dl / decode / encode are regenerated from the current source on every '
    'run (tools/translate/iconv2lean.py -> Generated/IconvDl.lean over the kit Model/CharsetPy.lean) and proved equal to decodeLoop / encodeLoop / decodeDl / '
    'encodeDl for all inputs, all iconv behaviours incl. failing iconv_open / iconv_close, all fuel, every world: generated_decode_loop_eq_model, '
    'generated_encode_loop_eq_model, generated_decode_dl_eq_model, generated_encode_dl_eq_model, generated_decode_eq_model, generated_encode_eq_model, '
    'generated_errors_not_strict; restated about the regenerated binding: iconv_told_le_allocated_generated (+_any), iconv_loop_schedule_generated, '
    'iconv_loop_terminates_generated, iconv_encode_loop_terminates_generated, iconv_loop_returns_produced_generated, '
    'iconv_encode_loop_returns_produced_generated, iconv_loop_error_span_generated (coverage.tie; twin streams charset-loop-*-generated). '
    'Likewise lib/encodings.py (tools/translate/encodings2lean.py -> Generated/EncodingsFn.lean over the kit Model/EncodingsPy.lean): the constants '
    '_interesting_ascii_bytes / _interesting_ascii_str evaluated from their defining expressions, is_portable_encoding, propose_portable_encoding, '
    'is_ascii_compatible_encoding, decode, charmap_encoding, iconv_encoding, _codec_search_function, for all names / tables / registries / decode outcomes / '
    'file sets: generated_interesting_ascii_eq_model, generated_is_portable_encoding_eq_model, generated_propose_portable_encoding_eq_model, '
    'generated_is_ascii_compatible_encoding_eq_model, generated_encodings_decode_eq_model, generated_charmap_encoding_eq_model, '
    'generated_codec_search_function_eq_model; restated: ascii_verdict_bytewise_generated, ascii_unknown_generated, proposal_portable_generated, '
    'proposal_sound_generated, loader_decode_total_generated, codec_search_extra_generated (twin streams charset-names-generated, charset-loader-generated). '
    'Likewise lib/ling.py Language._simple_format and Language.get_unrepresentable_characters (tools/translate/ling2lean.py -> Generated/LingFn.lean over the kit '
    'Model/LingPy.lean; _get_characters and str.encode are parameters): generated_simple_format_eq_model, generated_get_unrepresentable_characters_eq_model, '
    'unrepresentable_iff_generated (twin stream charset-characters-generated). '
    'End to end (the loop composed with a reference iconv for the charset): euctw_codec_decode, euctw_codec_encode, euctw_codec_roundtrip, '
    'koi8t_codec. loader_decode_total. unrepresentable_iff, check_unrepresentable_iff, check_classification, check_total, '
    'extra_codecs_encode_ok (EncodeOk is a theorem for the charmap codecs and EUC-TW). '
    'TEST-LEVEL ONLY (named): that glibc behaves like the reference iconv (stream charset-reficonv: every conversion call of the run, return '
    'code / input consumed / bytes written, compared with the model; the loop-real stream replays the recorded calls through the model of the '
    'loop); that glibc segments a byte string into units as eucTwUnit does (streams charset-euctw and charset-euctw-real, the latter over the '
    'generated tables without an oracle, incl. the predicted round-trip flag); the registry model beyond the 600 rows (stream '
    'charset-registry, ~4000 spelling variants); "same codec name => decodes every byte sequence identically" (416 byte strings per '
    'proposal); memory safety of the ctypes calls cannot be exhibited by a model. '
    'FALSE of the code / environment and recorded: KOI8-T not portable (open), EUC-TW redundant units do not round-trip (open, inherent to '
    'glibc\'s EUC-TW; the class is now exact), charset=idna crashed get_unrepresentable_characters and the loaders (fixed in /repo cf40a53, '
    'ded8ac2). Noted, not a clause: decode(encode(s)) = s fails for the TAG characters U+E0000..E007F, which glibc drops '
    '(\'a\\U000E0041b\'.encode(\'EUC-TW\') == b\'ab\'). '
    'OUTSTANDING: nothing named by the previous round remains outside Lean except what is inherently environment: glibc\'s C code '
    '(segmentation, contract) and CPython\'s C code (charmap functions, registry) are modelled and tied, not verified.')

if __name__ == '__main__':
    common.main_wrapper(main)
