"""C14 harness: drive the real message-format checks (unit level: `_check_message_formats` on synthetic ctx / message / flags
with a capturing tag(); end to end: PO files through `Checker.check`), encode the same inputs for the Lean driver, and an
independent reference comparison of signatures (the falsifier)."""
import collections, os, re, sys, tempfile, types
sys.path.insert(0, os.path.join(os.path.dirname(os.path.abspath(__file__)), '..'))
import common
from gen import fmtcheck as G
from gen import catalog as GC
import checker_harness as H
import plural_common as P

KIND_PREFIX = {'c': 'c-format-string', 'python': 'python-format-string', 'python-brace': 'python-brace-format-string', 'perl-brace': 'perl-brace-format-string'}
SINGLE_STRING_SUFFIXES = ('-format-string-error', '-redundant-flag', '-non-portable-conversion', '-redundant-precision', '-redundant-length',
                          '-obsolete-conversion')
FAMILY = tuple(KIND_PREFIX.values()) + ('qt-plural-format-mistaken-for-c-format',)

def is_format_tag(name):
    return name.startswith(FAMILY)

def backend(kind):
    from lib.strformat import c, python, pybrace, perlbrace
    return {'c': c, 'python': python, 'python-brace': pybrace, 'perl-brace': perlbrace}[kind]

# ----------------------------------------------------------------------------------------------- cases

class FakeMessage:
    comment = None
    obsolete = False
    previous_msgctxt = previous_msgid = previous_msgid_plural = None
    def __init__(self, case):
        self.msgid = case['msgid']['text']
        self.msgctxt = case['msgctxt']
        self.msgid_plural = case['msgid_plural']['text'] if case['msgid_plural'] is not None else None
        self.msgstr = case['msgstr']['text']
        self.msgstr_plural = {i: s['text'] for i, s in case['msgstr_plural'].items()}
        self.flags = []

EMPTY = {'text': '', 'ref': 'empty', 'how': 'empty'}

def empty_ref(kind):
    return {'c': ('c', [], [], []), 'python': ('seq', []), 'python-brace': ('brace', {}), 'perl-brace': ('perl', frozenset())}[kind]

def gen_case(rng, e2e=False):
    """one message with its context.  The strings are built for ONE primary format kind; further format flags may be added
    (other checkers then see the same strings), which the correspondence covers but the falsifier skips."""
    kind = rng.choice(G.KINDS)
    sig = G.make_sig(rng, kind)
    plural = rng.random() < 0.55
    case = {'primary': kind, 'formats': [kind], 'msgctxt': rng.choice([None, None, None, 'menu', 'c\x1b', 'ą']),
            'template': rng.random() < 0.08, 'encoding': rng.random() > 0.05, 'fuzzy': rng.random() < 0.06, 'range': None,
            'msgid_plural': None, 'msgstr': dict(EMPTY), 'msgstr_plural': {}, 'preimage': None, 'pf': None}
    r = rng.random()
    if r < 0.08:
        case['formats'] = sorted({kind, rng.choice(G.KINDS)})
    elif r < 0.12:
        case['formats'] = [kind, rng.choice(['sh', 'java', 'qt', 'awk', 'javascript'])]
    elif r < 0.14:
        case['formats'] = list(G.KINDS)
    elif r < 0.16:
        case['formats'] = [rng.choice(['sh', 'tcl'])]
    mk = lambda how=None, **kw: G.make_string(rng, kind, sig, how, **kw)
    if not plural:
        case['msgid'] = mk('same') if rng.random() < 0.93 else mk('invalid')
        if rng.random() < 0.93:
            case['msgstr'] = mk()
        # (else: untranslated)
        if rng.random() < 0.03:
            case['msgstr_plural'] = {0: mk()}          # odd but possible for a synthetic message
    else:
        case['msgid_plural'] = mk('same') if rng.random() < 0.95 else mk('invalid')
        r = rng.random()
        if r < 0.45:
            case['msgid'] = mk(G.drop_int_how(kind))           # "one file" / "%d files"
        elif r < 0.85:
            case['msgid'] = mk('same')
        elif r < 0.95:
            case['msgid'] = mk()
        else:
            case['msgid'] = mk('invalid')
        nforms = rng.choice([1, 2, 2, 3, 3, 3, 4, 6])
        if e2e:
            case['pf'] = rng.choice(G.PLURAL_FORMS)
            m = re.search(r'nplurals=(\d+)', case['pf'])
            nforms = int(m.group(1)) if m and rng.random() < 0.9 else nforms
        else:
            case['preimage'] = G.synthetic_preimage(rng, nforms)
        style = rng.random()
        for i in range(nforms):
            if style < 0.15:
                how = 'same'
            elif style < 0.45:
                how = rng.choice(['same', G.drop_int_how(kind, rng)])
            else:
                how = rng.choice([None, 'same', G.drop_int_how(kind, rng)])
            s = mk(how)
            if rng.random() < 0.04:
                s = dict(EMPTY)
            case['msgstr_plural'][i] = s
        if rng.random() < 0.04:
            case['msgstr_plural'] = {i: dict(EMPTY) for i in case['msgstr_plural']}
        if not e2e and rng.random() < 0.05:
            items = list(case['msgstr_plural'].items())
            rng.shuffle(items)                                  # dict order is not key order
            case['msgstr_plural'] = dict(items)
        if rng.random() < 0.5:
            case['range'] = rng.choice(G.RANGES)
    if not plural and rng.random() < 0.05:
        case['range'] = rng.choice(G.RANGES)
    return case

def flags_of(case):
    fl = types.SimpleNamespace()
    fl.fuzzy = case['fuzzy']
    rg = case['range']
    fl.range_min, fl.range_max = (0, 1e999) if rg is None else rg
    fl.formats = frozenset(case['formats'])
    return fl

# ----------------------------------------------------------------------------------------------- the real code

def canon_tags(calls):
    out = []
    for name, extra in calls:
        if name.endswith(SINGLE_STRING_SUFFIXES):
            extra = extra[:1]
        out.append(name + '(' + ','.join(H.canon_extra(x) for x in extra) + ')')
    return ';'.join(out)

def run_unit(case):
    """-> (canonical output, raw calls)"""
    try:
        checker, calls = H.make_checker()
    except Exception as exc:
        return 'err ' + type(exc).__name__, []
    ctx = types.SimpleNamespace()
    ctx.is_template = case['template']
    ctx.encoding = 'UTF-8' if case['encoding'] else None
    ctx.plural_preimage = case['preimage']
    msg = FakeMessage(case)
    try:
        checker._check_message_formats(ctx, msg, flags_of(case))
    except Exception as exc:
        return 'err ' + type(exc).__name__, calls
    return 'ok ' + canon_tags(calls), calls

# ----------------------------------------------------------------------------------------------- encoding for the driver

def brace_token(kind, s):
    b = backend(kind)
    t = '1' if s else '0'
    try:
        fmt = b.FormatString(s)
    except b.Error:
        return t + '|E'
    except Exception as exc:
        return t + '|X:' + type(exc).__name__
    try:
        if kind == 'python-brace':
            items = []
            for k, uses in fmt.argument_map.items():
                key = ('i%d' % k) if isinstance(k, int) else 's' + H.hexs(k)
                ts = ','.join((''.join(sorted(x[0] for x in u.types)) or '0') for u in uses)
                items.append(key + '=' + ts)
            args = ';'.join(items) or '-'
        else:
            args = ';'.join(H.hexs(a) for a in fmt.arguments) or '-'
        return t + '|O:%d:%s' % (len(fmt), args)
    except Exception as exc:
        return t + '|X:' + type(exc).__name__

def str_token(fmt_name, s):
    if fmt_name in ('python-brace', 'perl-brace'):
        return brace_token(fmt_name, s)
    return H.hexs(s)

def pre_token(pre):
    if pre is None:
        return 'N'
    if not pre:
        return 'E'
    return '/'.join('%d:%s' % (k, ','.join(map(str, v))) for k, v in pre.items())

def has_brace(case):
    return any(f in ('python-brace', 'perl-brace') for f in case['formats'])

def encode(case, pre=None, raw=False):
    """`raw`: op `runs` - every string as code points, the brace kinds are parsed by the model itself (C13's parser models
    composed with the comparators); otherwise the brace kinds carry the signature extracted from the real parser object"""
    from lib.check.msgrepr import message_repr
    str_tok = (lambda name, s: H.hexs(s)) if raw else str_token
    msg = FakeMessage(case)
    fl = flags_of(case)
    rmax = 'inf' if fl.range_max == 1e999 else str(fl.range_max)
    parts = ['fmtcheck', 'runs' if raw else 'run', '1' if case['template'] else '0', '1' if case['encoding'] else '0',
             pre if pre is not None else pre_token(case['preimage']), '1' if case['fuzzy'] else '0', str(fl.range_min), rmax,
             H.hexs(str(message_repr(msg, template='{}:'))), H.hexs(str(message_repr(msg))), str(len(case['formats']))]
    for name in case['formats']:
        parts += [H.hexs(name), str_tok(name, msg.msgid), 'N' if msg.msgid_plural is None else str_tok(name, msg.msgid_plural),
                  str_tok(name, msg.msgstr), str(len(msg.msgstr_plural))]
        for i, s in msg.msgstr_plural.items():
            parts += [str(i), str_tok(name, s)]
    return ' '.join(parts)

# ----------------------------------------------------------------------------------------------- get_last_integer_conversion

def lastint_cases(rng, count):
    lines, outs = [], []
    from lib.strformat import c as cb
    attempts = 0
    while len(lines) < count and attempts < 20 * count + 100:
        attempts += 1
        convs = G.c_sig(rng)
        s = G.c_string(rng, convs, rng.choice(['same', 'same', 'add', 'restar']), dup=rng.random() < 0.3)['text']
        try:
            fmt = cb.FormatString(s)
            items = list(fmt)
            nargs = len(fmt.arguments)
        except Exception:
            continue
        for n in range(0, nargs + 2):
            try:
                r = fmt.get_last_integer_conversion(n=n)
                out = 'ok none' if r is None else 'ok %d' % next(i for i, x in enumerate(items) if x is r)
            except IndexError:
                out = 'err IndexError'
            except Exception as exc:
                out = 'err ' + type(exc).__name__
            lines.append('fmtcheck lastint %s %d' % (H.hexs(s), n))
            outs.append(out)
    return lines, outs

# ----------------------------------------------------------------------------------------------- end to end

GOOD_HEADER = [
    ('Project-Id-Version', 'verif 1'), ('Report-Msgid-Bugs-To', 'bugs@example.org'), ('POT-Creation-Date', '2020-01-01 00:00+0000'),
    ('PO-Revision-Date', '2020-01-02 00:00+0000'), ('Last-Translator', 'A Translator <a@example.org>'),
    ('Language-Team', 'none'), ('MIME-Version', '1.0'), ('Content-Type', 'text/plain; charset=UTF-8'),
    ('Content-Transfer-Encoding', '8bit'),
]

def effective_range(rg):
    """what `_check_message_flags` makes of a `range: i..j` flag"""
    if rg is None or not rg[0] < rg[1]:
        return None
    return rg

def po_file(cases, pf, charset=True):
    """PO bytes for messages that share one header; each message gets a unique marker so its tags can be told apart"""
    fields = [(k, v) for k, v in GOOD_HEADER if charset or k != 'Content-Type']
    if pf is not None:
        fields.append(('Plural-Forms', pf))
    out = 'msgid ""\n' + GC.po_string('msgstr', ''.join(f'{k}: {v}\n' for k, v in fields)) + '\n'
    for case in cases:
        fl = [f + '-format' for f in case['formats']]
        if case['fuzzy']:
            fl.append('fuzzy')
        if case['range'] is not None:
            fl.append('range: %d..%d' % case['range'])
        out += '#, ' + ', '.join(fl) + '\n'
        if case['msgctxt'] is not None:
            out += GC.po_string('msgctxt', case['msgctxt'])
        out += GC.po_string('msgid', case['msgid']['text'])
        if case['msgid_plural'] is not None:
            out += GC.po_string('msgid_plural', case['msgid_plural']['text'])
            for i, s in sorted(case['msgstr_plural'].items()):
                out += GC.po_string('msgstr[%d]' % i, s['text'])
        else:
            out += GC.po_string('msgstr', case['msgstr']['text'])
        out += '\n'
    return out

def gen_file(rng, n_messages):
    """(cases, pf, template, charset): messages for one file; markers make msgids unique"""
    pf = rng.choice(G.PLURAL_FORMS) if rng.random() < 0.95 else None
    template = rng.random() < 0.06
    charset = rng.random() > 0.04
    m = re.search(r'nplurals=(\d+)', pf or '')
    nforms = int(m.group(1)) if m else 2
    cases = []
    for j in range(n_messages):
        case = gen_case(rng, e2e=True)
        case['pf'] = pf
        case['template'] = template
        case['encoding'] = charset
        if case['msgid_plural'] is not None:
            forms = list(case['msgstr_plural'].values())
            while len(forms) < nforms:
                forms.append(dict(rng.choice(forms)) if forms else dict(EMPTY))
            if rng.random() < 0.9:
                forms = forms[:nforms]
            case['msgstr_plural'] = dict(enumerate(forms))
            case['msgstr'] = dict(EMPTY)
        else:
            case['msgstr_plural'] = {}
        marker = 'm%d ' % j
        for key in ('msgid',):
            case[key] = dict(case[key], text=marker + case[key]['text'])
        case['marker'] = marker
        if not charset:
            # without a charset declaration the loader reads the UTF-8 bytes as ISO-8859-1: that is what the checks then see
            l1 = lambda s: dict(s, text=s['text'].encode('utf-8').decode('iso-8859-1'))
            case['msgid'], case['msgstr'] = l1(case['msgid']), l1(case['msgstr'])
            if case['msgid_plural'] is not None:
                case['msgid_plural'] = l1(case['msgid_plural'])
            case['msgstr_plural'] = {i: l1(s) for i, s in case['msgstr_plural'].items()}
            if case['msgctxt'] is not None:
                case['msgctxt'] = case['msgctxt'].encode('utf-8').decode('iso-8859-1')
        cases.append(case)
    return cases, pf, template, charset

def run_e2e(cases, pf, template, charset, workdir):
    """the real `Checker.check()` on the file; -> per message canonical output"""
    path = os.path.join(workdir, 'f.pot' if template else 'f.po')
    with open(path, 'w', encoding='utf-8' if charset else 'iso-8859-1') as f:
        f.write(po_file(cases, pf, charset))
    checker, calls = H.make_checker(path)
    try:
        checker.check()
    except Exception as exc:
        if len(cases) == 1:
            return ['err ' + type(exc).__name__], {}
        # find the message(s) that make the check raise: each one alone in a file of its own
        outs, per = [], {}
        for j, case in enumerate(cases):
            o, p1 = run_e2e([dict(case, msgid=dict(case['msgid'], text='m0 ' + case['msgid']['text'][len(case['marker']):]), marker='m0 ')],
                            pf, template, charset, workdir)
            outs.append(o[0])
            per[j] = p1.get(0, []) if isinstance(p1, dict) else []
        return outs, per
    per = collections.defaultdict(list)
    stray = []
    for name, extra in calls:
        if not is_format_tag(name):
            continue
        text = str(extra[0]) if extra else ''
        m = re.match(r"""msgid ['"]m(\d+) """, text)
        if m is None:
            stray.append(name)
            continue
        per[int(m.group(1))].append((name, extra))
    outs = ['ok ' + canon_tags(per[j]) for j in range(len(cases))]
    if stray:
        outs[0] += ';STRAY:' + ','.join(stray)
    return outs, per

def encode_e2e(case, pf, raw=False):
    c = dict(case)
    c['range'] = effective_range(case['range'])
    pre = 'N' if pf is None else 'H:' + H.hexs(pf)
    return encode(c, pre=pre, raw=raw)

# ----------------------------------------------------------------------------------------------- the reference (falsifier)
#
# Written from the property statement and the tag descriptions in data/tags, over the signatures the strings were BUILT to have.

def loc_s(loc): return 'S:' + H.hexs(loc)
def loc_p(loc): return 'S:' + H.hexs('(' + loc + ')')

def brace_key_order(k):
    return (isinstance(k, str), k)

def compare(kind, src, dst, src_loc, dst_loc):
    """-> (tags that must be there, tags about missing arguments, dropped: is the difference 'one integer argument dropped'?)
    tags as (name, [canonical extras after the prefix])"""
    pre = KIND_PREFIX[kind]
    must, miss, dropped_int = [], [], False
    if kind == 'c':
        _, st, su, si = src
        _, dt, du, di = dst
        ns, nd = len(st), len(dt)
        if nd > ns:
            must.append((pre + '-excess-arguments', ['i:%d' % nd, loc_p(dst_loc), 's:' + H.hexs('>'), 'i:%d' % ns, loc_p(src_loc)]))
        elif nd < ns:
            miss.append((pre + '-missing-arguments', ['i:%d' % nd, loc_p(dst_loc), 's:' + H.hexs('<'), 'i:%d' % ns, loc_p(src_loc)]))
            users = set()
            for us in su[nd:]:
                users |= set(us)
            if len(users) == 1:
                conv = next(iter(users))
                integer, value_slot = si[conv]
                # the dropped arguments are used by one conversion only, an integer one, whose own value is among them
                dropped_int = integer and nd <= value_slot < ns
        for a, b in zip(st, dt):
            if a != b:
                must.append((pre + '-argument-type-mismatch', ['S:' + H.hexs(b), loc_p(dst_loc), 's:' + H.hexs('!='), 'S:' + H.hexs(a), loc_p(src_loc)]))
        return must, miss, dropped_int
    if kind == 'python':
        sseq = src[1] if src[0] == 'seq' else []
        dseq = dst[1] if dst[0] == 'seq' else []
        smap = src[1] if src[0] == 'map' else {}
        dmap = dst[1] if dst[0] == 'map' else {}
        if len(sseq) != len(dseq):
            must.append((pre + '-argument-number-mismatch', ['i:%d' % len(dseq), loc_p(dst_loc), 's:' + H.hexs('!='), 'i:%d' % len(sseq), loc_p(src_loc)]))
        for a, b in zip(sseq, dseq):
            if a != b:
                must.append((pre + '-argument-type-mismatch', ['S:' + H.hexs(b), loc_p(dst_loc), 's:' + H.hexs('!='), 'S:' + H.hexs(a), loc_p(src_loc)]))
        for k in sorted(set(smap) & set(dmap)):
            if smap[k] != dmap[k]:
                must.append((pre + '-argument-type-mismatch', ['S:' + H.hexs(dmap[k]), loc_p(dst_loc), 's:' + H.hexs('!='), 'S:' + H.hexs(smap[k]), loc_p(src_loc)]))
        for k in sorted(set(dmap) - set(smap)):
            must.append((pre + '-unknown-argument', ['s:' + H.hexs(k), loc_s('in'), loc_s(dst_loc), loc_s('but not in'), loc_s(src_loc)]))
        missing = sorted(set(smap) - set(dmap))
        for k in missing:
            miss.append((pre + '-missing-argument', ['s:' + H.hexs(k), loc_s('not in'), loc_s(dst_loc), loc_s('while in'), loc_s(src_loc)]))
        dropped_int = len(missing) == 1 and smap[missing[0]] == 'int'
        return must, miss, dropped_int
    if kind == 'python-brace':
        smap, dmap = src[1], dst[1]
        ck = lambda k: ('i:%d' % k) if isinstance(k, int) else 's:' + H.hexs(k)
        for k in sorted(set(smap) & set(dmap), key=brace_key_order):
            if not (smap[k] & dmap[k]):
                must.append((pre + '-argument-type-mismatch', ['S:' + H.hexs(', '.join(sorted(dmap[k]))), loc_p(dst_loc), 's:' + H.hexs('!='),
                                                               'S:' + H.hexs(', '.join(sorted(smap[k]))), loc_p(src_loc)]))
        for k in sorted(set(dmap) - set(smap), key=brace_key_order):
            must.append((pre + '-unknown-argument', [ck(k), loc_s('in'), loc_s(dst_loc), loc_s('but not in'), loc_s(src_loc)]))
        missing = sorted(set(smap) - set(dmap), key=brace_key_order)
        for k in missing:
            miss.append((pre + '-missing-argument', [ck(k), loc_s('not in'), loc_s(dst_loc), loc_s('while in'), loc_s(src_loc)]))
        dropped_int = len(missing) == 1 and 'int' in smap[missing[0]]
        return must, miss, dropped_int
    if kind == 'perl-brace':
        sset, dset = src[1], dst[1]
        for k in sorted(dset - sset):
            must.append((pre + '-unknown-argument', ['s:' + H.hexs(k), loc_s('in'), loc_s(dst_loc), loc_s('but not in'), loc_s(src_loc)]))
        missing = sorted(sset - dset)
        for k in missing:
            miss.append((pre + '-missing-argument', ['s:' + H.hexs(k), loc_s('not in'), loc_s(dst_loc), loc_s('while in'), loc_s(src_loc)]))
        dropped_int = len(missing) == 1          # perl-brace placeholders are untyped: any single placeholder may be the count
        return must, miss, dropped_int
    raise ValueError(kind)

def ref_of(kind, s):
    if s['ref'] == 'empty':
        return empty_ref(kind)
    return s['ref']

def selected(case, pf_info, i, e2e):
    """the n in the window [0, 200) restricted by the range flag for which form i is selected, in increasing order;
    'no-plural-checks' when there is no preimage at all, 'skip-form' when the form index has no entry"""
    if not e2e:
        pre = case['preimage']
        if not pre:
            return 'no-plural-checks'
        if i not in pre:
            return 'skip-form'
        base = list(pre[i])
        rg = case['range']
    else:
        if pf_info is None:
            return 'no-plural-checks'
        base = pf_info.get(i)
        if base is None:
            return 'skip-form'
        rg = effective_range(case['range'])
    lo, hi = (0, 1e999) if rg is None else rg
    return [n for n in base if lo <= n <= hi]

def plural_info(pf):
    """reference reading of a Plural-Forms value: {form: [n < 200 selecting it]} when the declaration is clean (parses, every window
    value is a form index, every form index is produced in the window); None when the tool must not run plural checks because the
    declaration is broken in a way the reference can see; 'unknown' otherwise"""
    if pf is None:
        return None
    m = re.fullmatch(r'nplurals=([1-9][0-9]*);[ \t]*plural=([^;]+);?', pf)
    if m is None:
        return 'unknown'
    n = int(m.group(1))
    try:
        e = P.ref_parse(m.group(2))
    except P.RefSyntaxError:
        return None
    pre = collections.defaultdict(list)
    for k in range(200):
        v = P.ref_eval(e, k, 32)
        if not isinstance(v, int) or v >= n:
            return None
        pre[v].append(k)
    if set(pre) != set(range(n)):
        return 'unknown'
    return dict(pre)

def group_tags(calls, kind):
    """the tool's tags of one kind, split into single-string tags and argument tags per destination"""
    pre = KIND_PREFIX[kind]
    errors, args = [], collections.defaultdict(list)
    for name, extra in calls:
        if not name.startswith(pre + '-'):
            continue
        if name.endswith(SINGLE_STRING_SUFFIXES):
            if name.endswith('-format-string-error'):
                errors.append(name)
            continue
        if name.endswith(('-multiple-unnamed-arguments', '-unnamed-plural-argument')):
            continue
        canon = [H.canon_extra(x) for x in extra[1:]]
        dst = None
        for c in canon:
            m = re.fullmatch(r'S:(.*)', c)
            if m:
                try:
                    t = ''.join(chr(int(h, 16)) for h in m.group(1).split('.')) if m.group(1) != '-' else ''
                except ValueError:
                    continue
                t = t.strip('()')
                if t == 'msgstr' or re.fullmatch(r'msgstr\[\d+\]', t):
                    dst = t
                    break
                if t == 'msgid':
                    dst = dst or 'msgid'
        args[dst].append((name, canon))
    return errors, args

def check_case(case, calls, out, pf_info=None, e2e=False):
    """the property on one observed run; returns a replay dict or None.  Only single-kind messages inside the statement's domain."""
    kind = case['primary']
    if case['formats'] != [kind]:
        return None
    def replay(what, **kw):
        d = {'kind': what, 'format': kind, 'observed': out,
             'message': {'msgid': case['msgid']['text'], 'msgid_plural': case['msgid_plural'] and case['msgid_plural']['text'],
                         'msgstr': case['msgstr']['text'], 'msgstr_plural': {i: s['text'] for i, s in case['msgstr_plural'].items()},
                         'msgctxt': case['msgctxt']},
             'built_as': {'msgid': case['msgid']['how'], 'msgid_plural': case['msgid_plural'] and case['msgid_plural']['how'],
                          'msgstr': case['msgstr']['how'], 'msgstr_plural': {i: s['how'] for i, s in case['msgstr_plural'].items()}},
             'flags': {'fuzzy': case['fuzzy'], 'range': case['range'], 'formats': case['formats']},
             'ctx': {'is_template': case['template'], 'encoding': case['encoding'], 'plural_preimage': case['preimage'], 'Plural-Forms': case['pf']}}
        d.update(kw)
        return d
    if out.startswith('err'):
        return replay('crash:' + out[4:])
    if case['template'] or case['fuzzy'] or not case['encoding']:
        return None
    msgid, plural = case['msgid'], case['msgid_plural']
    strings = [msgid, case['msgstr']] + ([plural] if plural is not None else []) + list(case['msgstr_plural'].values())
    if any(s['ref'] == 'unknown' for s in strings):
        return None
    if e2e and plural is not None and pf_info == 'unknown':
        return None
    if msgid['ref'] is None or (plural is not None and plural['ref'] is None):
        return None
    errors, args = group_tags(calls, kind)
    # which strings are checked, against what
    pairs = []        # (dst_loc, dst string, src_loc, src ref, tolerance permitted)
    if case['msgstr']['text']:
        pairs.append(('msgstr', case['msgstr'], 'msgid', ref_of(kind, msgid), False))
    if plural is not None and any(s['text'] for s in case['msgstr_plural'].values()):
        for i, s in sorted(case['msgstr_plural'].items()):
            sel = selected(case, pf_info, i, e2e)
            if sel == 'no-plural-checks':
                break
            if sel == 'skip-form':
                # the form index is not produced: nothing to compare with - but an invalid string is still an error
                pairs.append(('msgstr[%d]' % i, s, None, None, False))
                continue
            if sel == [1]:
                pairs.append(('msgstr[%d]' % i, s, 'msgid', ref_of(kind, msgid), True))
            else:
                permitted = len(sel) <= 1 or (len(sel) == 2 and sel[0] == 0)
                pairs.append(('msgstr[%d]' % i, s, 'msgid_plural', ref_of(kind, plural), permitted))
    elif plural is None and case['msgstr_plural']:
        return None
    n_invalid = sum(1 for p in pairs if p[1]['ref'] is None)
    if len(errors) != n_invalid:
        return replay('format-string-error-count', expected_errors=n_invalid, observed_errors=len(errors))
    seen = set()
    for dst_loc, s, src_loc, src_ref, permitted in pairs:
        got = sorted(args.get(dst_loc, []))
        seen.add(dst_loc)
        if s['ref'] is None or src_ref is None:
            if got:
                return replay('argument-tags-without-comparison', destination=dst_loc, tags=got)
            continue
        must, miss, dropped_int = compare(kind, src_ref, ref_of(kind, s), src_loc, dst_loc)
        want_strict = sorted(must + miss)
        want_tolerant = sorted(must)
        if got == want_strict:
            continue
        if miss and got == want_tolerant:
            if permitted and dropped_int:
                continue
            return replay('omission-tolerated-where-not-permitted', destination=dst_loc, source=src_loc,
                          reference_source=repr(src_ref), reference_destination=repr(ref_of(kind, s)),
                          tolerance_permitted_by_form=permitted, one_integer_argument_dropped=dropped_int, expected=want_strict, got=got)
        return replay('mismatch-tags-differ-from-signature-comparison', destination=dst_loc, source=src_loc,
                      reference_source=repr(src_ref), reference_destination=repr(ref_of(kind, s)), expected=want_strict, got=got)
    extra = {k: v for k, v in args.items() if k not in seen and v}
    if extra:
        return replay('argument-tags-for-unchecked-destination', tags={str(k): v for k, v in extra.items()})
    return None


# ----------------------------------------------------------------------------------------------- corpus, distribution

def corpus_cases():
    """recorded cases (corpus/C14/*.json): always run first; strings without reference signature (only crashes and the
    correspondence are checked on them)"""
    import json
    d = os.path.join(common.VERIF, 'corpus', 'C14')
    out = []
    if not os.path.isdir(d):
        return out
    mk = lambda t: {'text': t, 'ref': 'unknown', 'how': 'corpus'}
    for f in sorted(os.listdir(d)):
        if not f.endswith('.json'):
            continue
        for j in json.load(open(os.path.join(d, f), encoding='utf-8')):
            fmts = j['formats']
            prim = next((x for x in fmts if x in G.KINDS), G.KINDS[0])
            pre = j.get('preimage')
            out.append({'primary': prim, 'formats': fmts, 'msgctxt': j.get('msgctxt'), 'template': j.get('template', False),
                        'encoding': j.get('encoding', True), 'fuzzy': j.get('fuzzy', False),
                        'range': tuple(j['range']) if j.get('range') else None,
                        'msgid': mk(j['msgid']), 'msgid_plural': mk(j['msgid_plural']) if j.get('msgid_plural') is not None else None,
                        'msgstr': mk(j.get('msgstr', '')) if j.get('msgstr') else dict(EMPTY),
                        'msgstr_plural': {int(i): mk(t) for i, t in j.get('msgstr_plural', {}).items()},
                        'preimage': {int(k): v for k, v in pre.items()} if pre is not None else None, 'pf': None})
    return out

def classify(case):
    """keys for the input-distribution histogram"""
    keys = ['how:' + s['how'] for s in [case['msgstr']] + list(case['msgstr_plural'].values()) if s['how'] not in ('empty',)]
    if case['msgid_plural'] is not None and case['preimage']:
        for i in case['msgstr_plural']:
            sel = selected(case, None, i, False)
            if isinstance(sel, str):
                keys.append('selected:' + sel)
            elif sel == [1]:
                keys.append('selected:[1]')
            elif len(sel) == 0:
                keys.append('selected:none')
            elif len(sel) == 1:
                keys.append('selected:single')
            elif len(sel) == 2 and sel[0] == 0:
                keys.append('selected:{0,k}')
            elif len(sel) == 2:
                keys.append('selected:two')
            else:
                keys.append('selected:3+')
    if case['template']: keys.append('ctx:template')
    if not case['encoding']: keys.append('ctx:no-encoding')
    if case['fuzzy']: keys.append('flag:fuzzy')
    if case['range'] is not None: keys.append('flag:range')
    if len(case['formats']) > 1: keys.append('flag:several-formats')
    return keys
