"""C02: correspondence streams (real lib.tags / cli.Checker.tag vs the Lean driver), the dynamic taint stream and the
falsifiers on the REAL code (independent of the Lean model: their reference is a 12-line re-implementation of the
documented escaping rule on top of CPython's repr, plus character categories from unicodedata)."""
import ast, contextlib, io, json, os, re, subprocess, sys, tempfile, shutil, unicodedata, argparse
sys.path.insert(0, os.path.join(os.path.dirname(os.path.abspath(__file__)), '..'))
import common
from gen import tagscat as G

common.setup_repo_import()

# ------------------------------------------------------------------------------------------------ protocol helpers

def hx(s):
    return '.'.join('%x' % ord(ch) for ch in s) if s else '-'

def unhx(t):
    return '' if t == '-' else ''.join(chr(int(x, 16)) for x in t.split('.'))

def enc_extra(x, T):
    if isinstance(x, T.safestr):
        return 's:' + hx(str.__str__(x))
    if isinstance(x, bytes):
        return 'b:' + (x.hex() or '-')
    if isinstance(x, bool):
        return 'u:' + hx(str(x))
    if isinstance(x, int):
        return 'i:%d' % x
    return 'u:' + hx(str(x))

def canon(fn):
    try:
        r = fn()
    except Exception as exc:
        return 'err ' + type(exc).__name__
    return 'ok ' + hx(r)

# ------------------------------------------------------------------------------------------------ independent reference

SAFE_WORD = re.compile(r'[A-Za-z0-9_.!<>=-]+')

def ref_escape(x, safestr_type):
    """the documented rule, re-implemented: safestr verbatim; bytes as a Python literal without the b; '' as
    (empty string); words over the safe class verbatim; everything else as a Python string literal"""
    if isinstance(x, safestr_type):
        return str.__str__(x)
    if isinstance(x, bytes):
        r = repr(x)
        assert r[0] == 'b'
        return r[1:]
    s = str(x)
    if s == '':
        return '(empty string)'
    if SAFE_WORD.fullmatch(s):
        return s
    return repr(s)

REF_LETTER = {  # severity -> certainty -> letter, from the tag documentation (doc/tags.txt semantics), written by hand
    'pedantic': {'wild-guess': 'P', 'possible': 'P', 'certain': 'P'},
    'wishlist': {'wild-guess': 'I', 'possible': 'I', 'certain': 'I'},
    'minor': {'wild-guess': 'I', 'possible': 'I', 'certain': 'W'},
    'normal': {'wild-guess': 'I', 'possible': 'W', 'certain': 'W'},
    'important': {'wild-guess': 'W', 'possible': 'E', 'certain': 'E'},
    'serious': {'wild-guess': 'E', 'possible': 'E', 'certain': 'E'},
}

def registry_from_file():
    """data/tags parsed independently of lib.tags: {name: (severity, certainty)}"""
    import configparser
    cp = configparser.ConfigParser(interpolation=None, default_section='')
    cp.read(os.path.join(common.REPO, 'data', 'tags'), encoding='UTF-8')
    return {name: (sec['severity'], sec['certainty']) for name, sec in cp.items() if name}

def token_ok(tok, original, safestr_type):
    """is `tok` an acceptable escaped form of the non-safestr value `original`?  (property-level, no reference)"""
    if G.hostile_chars(tok):
        return False
    if isinstance(original, bytes):
        try:
            return ast.literal_eval('b' + tok) == original
        except Exception:
            return False
    s = str(original)
    if s == '':
        return tok == '(empty string)'
    if tok == s:
        return bool(SAFE_WORD.fullmatch(tok))
    try:
        return tok[:1] in ('"', "'") and ast.literal_eval(tok) == s
    except Exception:
        return False

def line_grammar_problem(out, head, xs, safestr_type):
    """independent tokenizer for one printed line `<head>[ <extra>…]\\n` against the arguments of the tag() call: a safestr
    extra must appear verbatim; every other extra must appear as ONE token (quoted literal / safe word / `(empty string)`)
    that is an escaped form of it (`token_ok`).  Returns None or a description of the first deviation (e.g. file text that
    comes out unquoted)."""
    if not out.endswith('\n'):
        return 'line does not end with a newline'
    body = out[:-1]
    if not body.startswith(head):
        return 'line does not start with ' + ascii(head)
    rest = body[len(head):]
    pos = 0
    for i, x in enumerate(xs):
        if rest[pos:pos + 1] != ' ':
            return f'extra {i}: missing (line ends or no blank at offset {len(head) + pos})'
        pos += 1
        if isinstance(x, safestr_type):
            t = str.__str__(x)
            if rest[pos:pos + len(t)] != t:
                return f'extra {i}: tool text {ascii(t)} expected verbatim, found {ascii(rest[pos:pos + len(t) + 8])}'
            pos += len(t)
            continue
        if rest[pos:pos + 1] in ('"', "'"):
            q = rest[pos]
            j = pos + 1
            while j < len(rest) and rest[j] != q:
                j += 2 if rest[j] == '\\' else 1
            tok = rest[pos:j + 1]
        elif rest.startswith('(empty string)', pos):
            tok = '(empty string)'
        else:
            m = SAFE_WORD.match(rest, pos)
            tok = m.group() if m else ''
        if not tok or not token_ok(tok, x, safestr_type):
            return (f'extra {i}: file-derived value {ascii(x)} appears as {ascii(rest[pos:pos + max(len(tok), 1) + 12])}: '
                    f'token {ascii(tok)} is not an escaped form of it (unquoted or wrongly quoted text)')
        pos += len(tok)
    if pos != len(rest):
        return f'text after the last extra: {ascii(rest[pos:pos + 40])}'
    return None

# ------------------------------------------------------------------------------------------------ the real code

class Real:
    def __init__(self):
        from lib import tags, cli, terminal
        from lib.check import msgrepr
        self.tags, self.cli, self.terminal, self.msgrepr = tags, cli, terminal, msgrepr
        try:
            cli.Checker.patch_environment()
        except Exception:
            pass
    def options(self, ignore=()):
        return argparse.Namespace(ignore_tags=set(ignore), fake_root=None, language=None, file_type=None, unpack_deb=False, jobs=1)
    def checker(self, path, ignore=()):
        return self.cli.Checker(path, options=self.options(ignore))
    def tag_out(self, checker, name, extras):
        buf = io.StringIO()
        with contextlib.redirect_stdout(buf):
            checker.tag(name, *extras)
        return buf.getvalue()

def typed(kind, payload, T):
    if kind == 's':
        return T.safestr(payload)
    return payload

# ------------------------------------------------------------------------------------------------ unit correspondence

def gen_strings(chk):
    rng = chk.rng
    res = list(G.small_scope(2))
    if chk.thorough:
        res += list(G.small_scope(3, G.ALPHABET_SMALL[:12]))
    res += [chr(cp) for cp in G.boundary_codepoints()]
    res += [chr(cp) for cp in range(0x3000 if not chk.thorough else 0x30000)]
    res += [chr(rng.randrange(0x110000)) for _ in range(20000 if chk.thorough else 3000)]
    res += list(G.class_strings(rng, 40000 if chk.thorough else 4000))
    res += list(G.MARKERS.values()) + ['a' + m + 'b' for m in G.MARKERS.values()]
    res += ["it's", 'say "x"', 'both \' and "', '\\', 'a b', 'fox:', 'fox\n', '-', '.', 'a=b', 'x' * 300]
    return res

def stream_escape(chk, R):
    T = R.tags
    strings = gen_strings(chk)
    lines, outs = [], []
    classes = set()
    for s in strings:
        lines.append('tags escape u:' + hx(s))
        outs.append(canon(lambda: T._escape(s)))
        for ch in s[:3]:
            classes.add((unicodedata.category(ch), ch.isprintable()))
    rng = chk.rng
    for s in strings[:: (7 if chk.thorough else 23)]:
        lines.append('tags escape s:' + hx(s))
        outs.append(canon(lambda: T._escape(T.safestr(s))))
        lines.append('tags reprs ' + hx(s))
        outs.append(canon(lambda: repr(s)))
        lines.append('tags issafe ' + hx(s))
        outs.append('ok 1' if T._is_safe(s) else 'ok 0')
    bs = [bytes([b]) for b in range(256)] + [b'', b"'", b'"', b'\'"', b'it\'s', b'a b', b'\\x', bytes(range(256))]
    bs += [bytes(rng.randrange(256) for _ in range(rng.randint(1, 10))) for _ in range(3000 if chk.thorough else 500)]
    bs += [bytes(rng.choice(b'\'"\\a \n\xff\x7f') for _ in range(rng.randint(1, 5))) for _ in range(2000 if chk.thorough else 400)]
    for b in bs:
        lines.append('tags escape b:' + (b.hex() or '-'))
        outs.append(canon(lambda: T._escape(b)))
    for b in bs[::5]:
        lines.append('tags reprb ' + (b.hex() or '-'))
        outs.append(canon(lambda: repr(b)))
    ints = [0, 1, -1, 9, 10, 11, 99, 100, 101, -10, 2 ** 31, -2 ** 63, 10 ** 30, -10 ** 30 + 1] + [rng.randrange(-10 ** 12, 10 ** 12) for _ in range(500)] + list(range(-120, 1200))
    for n in ints:
        lines.append('tags escape i:%d' % n)
        outs.append(canon(lambda: T._escape(n)))
    chk.note_cases({('class',) + c for c in classes})
    chk.coverage.setdefault('code_point_classes_hit', sorted(f'{c}/{"printable" if p else "unprintable"}' for c, p in classes))
    return chk.stream('tags-escape', lines, outs)

def stream_priority(chk, R):
    T = R.tags
    sev = sorted(T.severities, key=lambda x: x.value)
    cer = sorted(T.certainties, key=lambda x: x.value)
    lines, outs = [], []
    for i, s in enumerate(sev):
        for j, c in enumerate(cer):
            lines.append(f'tags priority {i} {j}')
            try:
                outs.append('ok ' + T.Tag(name='probe', severity=s.name, certainty=c.name).get_priority())
            except Exception as exc:
                outs.append('err ' + type(exc).__name__)
    return chk.stream('tags-priority', lines, outs)

def random_extras(rng, T, pool):
    xs = []
    for _ in range(rng.choice([0, 0, 1, 1, 2, 3, 5])):
        k = rng.choice('suuubi')
        if k == 's':
            xs.append(T.safestr(rng.choice(pool)))
        elif k == 'u':
            xs.append(rng.choice(pool))
        elif k == 'b':
            xs.append(rng.choice(pool).encode('utf-8', 'surrogatepass')[: rng.randint(0, 6)])
        else:
            xs.append(rng.randrange(-50, 5000))
    return xs

def stream_format(chk, R, count):
    """Tag.format on registry tags and probe tags, colour off and colour on with arbitrary on/off strings
    (the two terminal functions Tag.get_colors() calls are replaced for the duration)"""
    T, term = R.tags, R.terminal
    rng = chk.rng
    sev = sorted(T.severities, key=lambda x: x.value)
    cer = sorted(T.certainties, key=lambda x: x.value)
    pool = list(G.class_strings(rng, 300, 8)) + list(G.MARKERS.values()) + ['', 'x', 'a b', "it's", 'foo-bar', 'PO-Revision-Date:']
    names = sorted(T._tags)
    lines, outs = [], []
    orig = term.attr_fg, term.attr_reset
    try:
        for _ in range(count):
            tag = T._tags[rng.choice(names)] if rng.random() < 0.7 else \
                T.Tag(name=rng.choice(['probe', 'x-y', rng.choice(pool) or 'p']), severity=rng.choice(sev).name, certainty=rng.choice(cer).name)
            path = rng.choice(['x.po', '/tmp/a b/c.po', 'd\xe9j\xe0.mo', rng.choice(pool) or 'p'])
            xs = random_extras(rng, T, pool)
            col = rng.random() < 0.5
            on, off = rng.choice(['\x1b[31m', '<', '', rng.choice(pool)]), rng.choice(['\x1b(B\x1b[m', '>', '', rng.choice(pool)])
            term.attr_fg = lambda i, on=on: on
            term.attr_reset = lambda off=off: off
            lines.append(' '.join(['tags format', str(sev.index(tag.severity)), str(cer.index(tag.certainty)), hx(tag.name), hx(path),
                                   '1' if col else '0', hx(on), hx(off)] + [enc_extra(x, T) for x in xs]))
            outs.append(canon(lambda: tag.format(path, *xs, color=col)))
    finally:
        term.attr_fg, term.attr_reset = orig
    return chk.stream('tags-format', lines, outs)

def stream_checker_tag(chk, R, count):
    """cli.Checker.tag: registry lookup, ignore_tags, unknown names, the printed line with its newline"""
    T = R.tags
    rng = chk.rng
    pool = list(G.class_strings(rng, 200, 8)) + list(G.MARKERS.values()) + ['', 'x', 'a b']
    names = sorted(T._tags)
    lines, outs = [], []
    for _ in range(count):
        name = rng.choice(names) if rng.random() < 0.8 else rng.choice(['no-such-tag', 'Ancient-Date', '', 'os-error ', rng.choice(pool)])
        ign = rng.random() < 0.2
        path = rng.choice(['x.po', '/tmp/a b/c.po', rng.choice(pool) or 'p'])
        xs = random_extras(rng, T, pool)
        ck = R.checker(path, ignore=[name] if ign else [])
        lines.append(' '.join(['tags tag', '1' if ign else '0', hx(name), hx(path)] + [enc_extra(x, T) for x in xs]))
        outs.append(canon(lambda: R.tag_out(ck, name, xs)))
    return chk.stream('tags-checker-tag', lines, outs)

SITE_TEMPLATES = ['{}', '({})', '{}:', 'overridden by {}', 'f({}): integer overflow', 'f({}): division by zero', '{} or {}', 'msgid {id}',
                  'msgid {id} msgctxt {ctxt}', '(implied by c-format)', 'f(3) = 7 >= 2', '{} or {} or {}']

def stream_safe_format(chk, R, count):
    T = R.tags
    rng = chk.rng
    pool = list(G.class_strings(rng, 200, 6)) + list(G.MARKERS.values()) + ['', 'x', 'a b', 'n==1']
    alpha = ['{', '}', '{', '}', 'a', 'b', '0', '1', ' ', '(', 'x']
    lines, outs = [], []
    for i in range(count):
        if i < len(SITE_TEMPLATES) * 4 or rng.random() < 0.3:
            tpl = SITE_TEMPLATES[i % len(SITE_TEMPLATES)]
        else:
            tpl = ''.join(rng.choice(alpha) for _ in range(rng.randint(0, 8)))
        args = random_extras(rng, T, pool)[:3]
        kws = {}
        for k in rng.sample(['id', 'ctxt', 'a', 'b', 'a0', ' ', 'x'], rng.randint(0, 3)):
            kws[k] = rng.choice(random_extras(rng, T, pool) or ['v'])
        enc = ['a:' + enc_extra(x, T) for x in args] + ['w:' + hx(k) + ':' + enc_extra(v, T) for k, v in kws.items()]
        lines.append(' '.join(['tags sformat', hx(tpl)] + enc))
        outs.append(canon(lambda: T.safe_format(tpl, *args, **kws)))
        # plain str.format on the same template (strings only)
        sargs = [str(a) if not isinstance(a, bytes) else 'b' for a in args]
        skws = {k: str(v) if not isinstance(v, bytes) else 'b' for k, v in kws.items()}
        lines.append(' '.join(['tags pyformat', hx(tpl)] + ['a:' + hx(a) for a in sargs] + ['w:' + hx(k) + ':' + hx(v) for k, v in skws.items()]))
        outs.append(canon(lambda: tpl.format(*sargs, **skws)))
    import types
    for _ in range(count // 2):
        msg = types.SimpleNamespace(msgid=rng.choice(pool), msgctxt=rng.choice([None, None] + pool))
        tpl = rng.choice(['{}', '({})', '{}:', '{}:', '{} {}', '{0}', 'x'])
        lines.append(' '.join(['tags msgrepr', hx(tpl), hx(msg.msgid), '~' if msg.msgctxt is None else hx(msg.msgctxt)]))
        outs.append(canon(lambda: R.msgrepr.message_repr(msg, template=tpl)))
    return chk.stream('tags-safe-format', lines, outs)

# ------------------------------------------------------------------------------------------------ unit falsifier (real code vs the property)

def falsify_escape(chk, R, strings):
    """property-direct on the real `_escape`, `Tag.format`: reference re-implementation + token/clean/round-trip checks"""
    T = R.tags
    tried = 0
    for s in strings:
        tried += 1
        try:
            out = T._escape(s)
        except Exception as exc:
            return {'kind': 'escape-crash', 'input': hx(s), 'input_repr': ascii(s), 'observed': repr(exc), 'expected': 'a string'}, tried
        exp = ref_escape(s, T.safestr)
        if out != exp or not token_ok(out, s, T.safestr):
            return {'kind': 'escape', 'input': hx(s), 'input_repr': ascii(s), 'observed': ascii(out), 'expected': ascii(exp),
                    'hostile_in_output': [hex(ord(c)) for c in G.hostile_chars(out)],
                    'replay': f"PYTHONPATH={common.REPO} {common.PY} -c \"from lib import tags; print(ascii(tags._escape({s!a})))\""}, tried
    for b in [bytes([i]) for i in range(256)] + [b'', b'\'"', b"it's \n\xff"]:
        tried += 1
        out = T._escape(b)
        if out != ref_escape(b, T.safestr) or not token_ok(out, b, T.safestr):
            return {'kind': 'escape-bytes', 'input': b.hex(), 'observed': ascii(out), 'expected': ascii(ref_escape(b, T.safestr))}, tried
    return None, tried

def falsify_registry(chk, R):
    """every registry tag: letter from an independent parse of data/tags and a hand-written severity x certainty table;
    monotonicity of the live get_priority"""
    T = R.tags
    reg = registry_from_file()
    if set(reg) != set(T._tags):
        return {'kind': 'registry', 'input': 'data/tags', 'observed': sorted(set(T._tags) ^ set(reg))[:5], 'expected': 'lib.tags._tags has exactly the sections of data/tags'}
    for name, (s, c) in sorted(reg.items()):
        got = T._tags[name].get_priority()
        if got != REF_LETTER[s][c]:
            return {'kind': 'priority', 'input': f'{name} severity={s} certainty={c}', 'observed': got, 'expected': REF_LETTER[s][c]}
    # unknown tag names are refused, registered ones print exactly one line
    for name in ('no-such-tag', '', 'Ancient-Date', 'ancient-date '):
        ck = R.checker('x.po')
        try:
            out = R.tag_out(ck, name, ['x'])
        except Exception as exc:
            if type(exc).__name__ != 'DataIntegrityError':
                return {'kind': 'unknown-tag', 'input': repr(name), 'observed': repr(exc), 'expected': 'DataIntegrityError'}
        else:
            return {'kind': 'unknown-tag', 'input': repr(name), 'observed': 'printed ' + ascii(out), 'expected': 'DataIntegrityError'}
    order = 'PIWE'
    sev = sorted(T.severities, key=lambda x: x.value)
    cer = sorted(T.certainties, key=lambda x: x.value)
    tab = {}
    for i, s in enumerate(sev):
        for j, c in enumerate(cer):
            try:
                tab[i, j] = T.Tag(name='p', severity=s.name, certainty=c.name).get_priority()
            except Exception as exc:
                return {'kind': 'priority', 'input': f'severity={s.name} certainty={c.name}', 'observed': repr(exc), 'expected': 'one of E W I P'}
            if tab[i, j] not in order or tab[i, j] != REF_LETTER[s.name][c.name]:
                return {'kind': 'priority', 'input': f'severity={s.name} certainty={c.name}', 'observed': tab[i, j], 'expected': REF_LETTER[s.name][c.name]}
    for (i, j), a in tab.items():
        for (k, l), b in tab.items():
            if i <= k and j <= l and order.index(a) > order.index(b):
                return {'kind': 'priority-monotone', 'input': f'({sev[i].name},{cer[j].name}) <= ({sev[k].name},{cer[l].name})', 'observed': f'{a} > {b}', 'expected': 'monotone'}
    return None

COLOUR_SCRIPT = r'''
import sys, json, re
sys.dont_write_bytecode = True
sys.path.insert(0, sys.argv[1])
from lib import tags, terminal
terminal.initialize()
res = []
sgr = re.compile('\x1b\\[[0-9;]*m|\x1b\\(B|\x0f')
cases = json.loads(sys.stdin.read())
for name, path, extras in cases:
    tag = tags.get_tag(name)
    xs = [tags.safestr(v) if k == 's' else v for k, v in extras]
    plain = tag.format(path, *xs, color=False)
    col = tag.format(path, *xs, color=True)
    on, off = tag.get_colors()
    res.append([name, plain, col, on, off, sgr.sub('', col)])
json.dump(res, sys.stdout)
'''

def falsify_colour(chk, R, terms=('xterm', 'xterm-256color', 'linux', 'vt100', 'dumb', 'ansi', 'screen')):
    """colour on, with the real terminal layer (curses + terminfo) in a subprocess per TERM: the coloured line is the
    plain line with on/off around the tag name; stripping SGR sequences gives the plain line"""
    T = R.tags
    rng = chk.rng
    names = sorted(T._tags)
    cases = []
    for n in rng.sample(names, 12) + ['invalid-date', 'os-error']:
        extras = [[rng.choice('su'), rng.choice(['x', 'a b', 'PO-Revision-Date:', 'it\'s', '\x1b[31m', ''])] for _ in range(rng.randint(0, 3))]
        cases.append([n, rng.choice(['x.po', 'dir/a b.po']), extras])
    tried = 0
    seen_colour = False
    for term in terms:
        env = dict(os.environ, TERM=term, PYTHONDONTWRITEBYTECODE='1')
        p = subprocess.run([common.PY, '-c', COLOUR_SCRIPT, common.REPO], input=json.dumps(cases), capture_output=True, text=True, env=env, timeout=120)
        if p.returncode != 0:
            return {'kind': 'colour-crash', 'input': f'TERM={term}', 'observed': p.stderr[-500:], 'expected': 'formatted lines'}, tried
        for (name, plain, col, on, off, stripped), case in zip(json.loads(p.stdout), cases):
            tried += 1
            seen_colour = seen_colour or bool(on)
            head = f'{plain[0]}: {case[1]}: '
            ok = plain.startswith(head + name) and col == head + on + name + off + plain[len(head) + len(name):]
            # safestr extras may legitimately carry their own ESC text in this unit test; compare SGR-stripped forms of both
            sgr = re.compile('\x1b\\[[0-9;]*m|\x1b\\(B|\x0f')
            if not ok or stripped != sgr.sub('', plain):
                return {'kind': 'colour-strip', 'input': f'TERM={term} tag={name} path={case[1]!r} extras={case[2]!r}', 'observed': ascii(col),
                        'expected': ascii(head + on + name + off + plain[len(head) + len(name):]), 'plain': ascii(plain)}, tried
    chk.coverage['colour'] = {'terms': list(terms), 'lines': tried, 'some_term_had_colour': seen_colour}
    return None, tried

def falsify_stdout_encoding(chk, R):
    """the real command line with stdout a pipe in several encodings: one line per problem whatever the encoding (printable
    non-ASCII text of the file is kept by the escaper, so it must survive a legacy / ASCII stdout without aborting the run)"""
    import e2e_common as E
    rng = chk.rng
    tried = 0
    with E.Workdir() as wd:
        files = []
        for k in range(6 if chk.thorough else 3):
            cat = G.base_catalog()
            G.set_header(cat, 'Last-Translator', rng.choice(['Za\u017c\u00f3\u0142\u0107 G\u0119\u015bl\u0105', '\u0416\u0443\u043a <zhuk@localhost>', '\u4e2d\u6587 <a@b>', 'J\u00fcrgen']))
            G.set_header(cat, 'Language-Team', rng.choice(['Polski \u2603', 'Deutsch <J\u00fcrgen@localhost>']))
            cat['entries'].append({'flags': ['c-format'], 'msgid': '%s \u20ac', 'msgstr': '%d \u20ac\u00df'})
            cat['entries'].append({'msgid': 'x\n', 'msgstr': '\u0105\U0001f600'})
            files.append(os.path.relpath(wd.write(f'enc{k}/pl.po', G.render_po(cat)), wd.path))
        ref = E.run_cli(files, wd.path, extra_env={'PYTHONIOENCODING': 'utf-8'})
        nref = len(ref['stdout'].splitlines())
        for enc in ('ascii', 'latin-1', 'iso-8859-2', 'cp1252', 'utf-8:strict', 'ascii:strict', 'koi8-r'):
            r = E.run_cli(files, wd.path, extra_env={'PYTHONIOENCODING': enc, 'LC_ALL': 'C'})
            tried += 1
            n = len(r['stdout'].splitlines())
            if r['rc'] != 0 or r['stderr'] or n != nref or ref['rc'] != 0:
                content = open(os.path.join(wd.path, files[0]), encoding='utf-8').read()
                return {'kind': 'stdout-encoding', 'input': f'PYTHONIOENCODING={enc}, stdout piped, {len(files)} files', 'file_content': content,
                        'observed': f'rc={r["rc"]}, {n} lines, stderr: {r["stderr"][-400:]}', 'expected': f'rc=0, {nref} lines (as with UTF-8), empty stderr',
                        'replay': f'PYTHONIOENCODING={enc} {common.PY} {common.REPO}/i18nspector pl.po | cat'}, tried
    chk.coverage['stdout_encodings'] = {'runs': tried, 'lines_per_run': nref}
    return None, tried

def falsify_character_names(chk, R):
    """rule `unicodeName` of the site classifier: encinfo.get_character_name answers clean ASCII for every code point"""
    from lib import encodings as encinfo
    cps = range(0x110000) if chk.thorough else list(range(0x3100)) + G.boundary_codepoints() + [chk.rng.randrange(0x110000) for _ in range(20000)]
    n = 0
    for cp in cps:
        try:
            s = encinfo.get_character_name(chr(cp))
        except ValueError:
            continue
        except Exception as exc:
            return {'kind': 'character-name', 'input': f'U+{cp:04X}', 'observed': repr(exc), 'expected': 'a name or ValueError'}, n
        n += 1
        if not (type(s) is str and all(' ' <= ch <= '~' for ch in s)):
            return {'kind': 'character-name', 'input': f'U+{cp:04X}', 'observed': ascii(s), 'expected': 'printable ASCII'}, n
    return None, n

# ------------------------------------------------------------------------------------------------ dynamic taint stream (end to end)

def load_sites():
    rc, out, err = common.run([common.PY, os.path.join(common.VERIF, 'tools', 'translate', 'tagsites2lean.py'), common.REPO, '--json'])
    if rc != 0:
        return None
    return json.loads(out)

def load_state():
    rc, out, err = common.run([common.PY, os.path.join(common.VERIF, 'tools', 'translate', 'tagstate2lean.py'), common.REPO, '--json'])
    if rc != 0:
        return None
    return json.loads(out)

def make_capture(R):
    cli = R.cli
    class Capture(cli.Checker):
        def tag(self, tagname, *extra):
            fr = sys._getframe(1)
            if fr.f_code.co_name == 'tag' and fr.f_code.co_filename.endswith(os.path.join('msgformat', '__init__.py')):
                fr = fr.f_back
            rel = os.path.relpath(fr.f_code.co_filename, common.REPO)
            buf = io.StringIO()
            exc = None
            with contextlib.redirect_stdout(buf):
                try:
                    super().tag(tagname, *extra)
                except Exception as e:      # the real code refused (unknown tag) or crashed while formatting
                    exc = e
            self.calls.append({'tag': tagname, 'extras': list(extra), 'out': buf.getvalue(), 'exc': exc,
                               'file': rel, 'func': fr.f_code.co_name, 'line': fr.f_lineno})
    return Capture

def site_key(call, i, sites):
    """the inventory key of the i-th extra of a captured call (falls back to file:function:tag:extra<i>)"""
    if sites:
        for ts in sites['tag_sites']:
            if ts['file'] == call['file'] and ts['line'] <= call['line'] <= ts['end_line'] and ts['name'] == call['tag']:
                ak = ts['argkeys']
                if i < len(ak) and ak[i] not in (None, '*'):
                    return ak[i]
                if '*' not in ak[:i + 1]:
                    break
        # the safestr was built elsewhere in the same function (e.g. `message = tags.safestr(message)`): unique match by text
        cands = [s for s in sites['safestr_sites'] if s['file'] == call['file'] and s['func'].split('.')[-1] == call['func']]
        val = str.__str__(call['extras'][i])
        if len(cands) == 1:
            return cands[0]['key']
        del val
    return f"{call['file']}:{call['func']}:{call['tag']}:extra{i}"

def check_calls(R, calls, path, ignore, registry, sites):
    """the property, call by call, on what the real Checker.tag printed.  Returns a list of violation dicts."""
    T = R.tags
    bad = []
    for call in calls:
        name, xs, out = call['tag'], call['extras'], call['out']
        where = f"{call['file']}:{call['func']}:{call['line']}"
        if call['exc'] is not None:
            bad.append({'kind': 'tag-raises', 'key': f"tag-raises:{where}:{name}", 'observed': repr(call['exc']), 'expected': 'one printed line', 'where': where, 'tag': name})
            continue
        if name in ignore:
            if out != '':
                bad.append({'kind': 'ignored-tag-printed', 'key': f'ignored:{name}', 'observed': ascii(out), 'expected': "''", 'where': where, 'tag': name})
            continue
        dirty = [(i, G.hostile_chars(str.__str__(x))) for i, x in enumerate(xs) if isinstance(x, T.safestr) and G.hostile_chars(str.__str__(x))]
        for i, hc in dirty:
            bad.append({'kind': 'safestr-carries-file-text', 'key': 'safestr-site:' + site_key(call, i, sites), 'where': where, 'tag': name,
                        'observed': 'safestr extra %d = %s (hostile: %s)' % (i, ascii(str.__str__(xs[i])), ' '.join('U+%04X' % ord(c) for c in hc)),
                        'expected': 'safestr wraps tool-generated text only; stdout line: ' + ascii(out)})
        if name not in registry:
            bad.append({'kind': 'unregistered-tag-printed', 'key': f'unregistered:{name}', 'observed': ascii(out), 'expected': 'DataIntegrityError', 'where': where, 'tag': name})
            continue
        letter = REF_LETTER[registry[name][0]][registry[name][1]]
        exp = f'{letter}: {path}: {name}' + ''.join(' ' + ref_escape(x, T.safestr) for x in xs) + '\n'
        gram = line_grammar_problem(out, f'{letter}: {path}: {name}', xs, T.safestr)
        if gram is not None or out != exp:
            bad.append({'kind': 'line-grammar' if gram is not None else 'line-differs-from-reference', 'key': f'line:{where}:{name}', 'where': where, 'tag': name,
                        'observed': ascii(out), 'expected': ascii(exp), 'grammar': gram,
                        'extras': [type(x).__name__ + ':' + ascii(x) for x in xs]})
            continue
        if dirty:
            continue        # the line is corrupted by the safestr extra reported above
        body = out[:-1]
        if not out.endswith('\n') or '\n' in body or len(body.splitlines()) != 1 or G.hostile_chars(body):
            bad.append({'kind': 'line-not-clean', 'key': f'dirty-line:{where}:{name}', 'where': where, 'tag': name, 'observed': ascii(out),
                        'expected': 'exactly one line without control/format characters', 'extras': [ascii(x) for x in xs]})
            continue
        for x in xs:
            if not isinstance(x, T.safestr) and not token_ok(ref_escape(x, T.safestr), x, T.safestr):
                bad.append({'kind': 'escaped-form-not-a-token', 'key': f'token:{where}:{name}', 'where': where, 'tag': name, 'observed': ascii(ref_escape(x, T.safestr)), 'expected': 'token'})
    return bad

def run_file(R, Capture, path, ignore=()):
    ck = Capture(path, options=R.options(ignore))
    ck.calls = []
    crash = None
    buf = io.StringIO()
    with contextlib.redirect_stdout(buf):     # anything printed outside tag() lands here
        try:
            ck.check()
        except Exception as exc:             # crashes are C01's business; what was printed before still counts here
            crash = exc
    return ck.calls, crash, buf.getvalue()

def write_catalog(tmp, idx, cat, kind, rng):
    if kind == 'mo':
        os.makedirs(os.path.join(tmp, f'j{idx}'), exist_ok=True)
        path = os.path.join(tmp, f'j{idx}', f't{idx}.mo')
        data = G.mo_bytes(cat, big=rng.random() < 0.3)
        if rng.random() < 0.1:
            data = data[: rng.randrange(len(data))]         # truncated: invalid-mo-file
        open(path, 'wb').write(data)
        return path
    ext = 'pot' if kind == 'pot' else 'po'
    sub = rng.choice(['', 'pl/LC_MESSAGES', 'de'])
    d = os.path.join(tmp, f'j{idx}', sub)
    os.makedirs(d, exist_ok=True)
    path = os.path.join(d, rng.choice([f't{idx}', 'pl', 'de_DE']) + '.' + ext)
    text = G.render_po(cat)
    data = text.encode('utf-8', 'surrogateescape')
    r = rng.random()
    if r < 0.05:
        data = data.replace(b'msgid "', b'msgid "\xff\xfe', 1)      # broken-encoding
    elif r < 0.10:
        lines = data.split(b'\n')
        lines.insert(rng.randrange(len(lines)), rng.choice([b'garbage \x1b[31m', b'msgstr "unterminated \x1b', b'msgid x', b'"stray \x9b"']))
        data = b'\n'.join(lines)                                     # syntax-error-in-po-file
    open(path, 'wb').write(data)
    return path

WITNESS_PO = '''msgid ""
msgstr ""
"Project-Id-Version: Gizmo Enhancer 1.0\\n"
"Report-Msgid-Bugs-To: gizmoenhancer@jwilk.net\\n"
"POT-Creation-Date: 2012-11-01 14:42+0100\\n"
"PO-Revision-Date: 2012-11-01 14:42+0100\\n"
"Last-Translator: Jakub Wilk <jwilk@jwilk.net>\\n"
"Language-Team: Polish <debian-l10n-polish@lists.debian.org>\\n"
"Language: pl\\n"
"MIME-Version: 1.0\\n"
"Content-Type: text/plain; charset=UTF-8\\n"
"Content-Transfer-Encoding: 8bit\\n"

#, python-format
msgid "%(a)s"
msgstr "%(a\x1b[31m)s %(a\x1b[31m)d"
'''

def taint_stream(chk, R, nfiles, sites):
    """catalogs with a hostile marker in every free-text slot through the real Checker.check() with a capturing tag();
    the property is evaluated on every call; the captured calls are also replayed through the Lean model"""
    T = R.tags
    rng = chk.rng
    Capture = make_capture(R)
    registry = registry_from_file()
    tmp = tempfile.mkdtemp(prefix='i18n-verif-c02.')
    findings = []          # (violation dict, replay info)
    lines, outs = [], []
    stats = {'files': 0, 'calls': 0, 'crashes': 0, 'tags_seen': set(), 'sites_seen': set(), 'safestr_extras': 0, 'escaped_extras': 0,
             'escaped_extras_with_marker': 0, 'stray_stdout': 0, 'slots': {}}
    try:
        jobs = []
        # 1. the recorded witness, every slot once with the combined marker, then random combinations
        wpath = os.path.join(tmp, 'witness.po')
        open(wpath, 'w', encoding='utf-8').write(WITNESS_PO)
        jobs.append((wpath, 'witness', ['python-format key'], 'esc-sgr'))
        idx = 0
        for slot in G.all_slot_names():
            for kind in ('po', 'pot', 'mo'):
                cat, used = G.tainted_catalog(rng, 'all', [slot])
                idx += 1
                jobs.append((write_catalog(tmp, idx, cat, kind, rng), kind, used, 'all'))
        # files the loader refuses: a directory named like a catalog, an unknown extension
        os.makedirs(os.path.join(tmp, 'dir.po'), exist_ok=True)
        jobs.append((os.path.join(tmp, 'dir.po'), 'dir', ['path'], 'all'))
        os.makedirs(os.path.join(tmp, 'dir.mo'), exist_ok=True)
        jobs.append((os.path.join(tmp, 'dir.mo'), 'dir', ['path'], 'all'))
        open(os.path.join(tmp, 'x.txt'), 'w').write('x')
        jobs.append((os.path.join(tmp, 'x.txt'), 'txt', ['path'], 'all'))
        jobs.append((os.path.join(tmp, 'missing.po'), 'missing', ['path'], 'all'))
        # files polib refuses: the marker in every position of a line that a syntax-error message can quote
        good = G.render_po(G.base_catalog())
        k = 0
        for mk in sorted(G.MARKERS):
            m = G.MARKERS[mk].replace('\n', ' ')
            tok = m.replace(' ', '').replace('\t', '') or 'x'
            for shape in ('#| {t}msgid "x"\nmsgid "a"\nmsgstr "b"\n', '#| {t} "x"\nmsgid "a"\nmsgstr "b"\n', '#| msgid{t} "x" y\nmsgid "a"\nmsgstr "b"\n',
                          '#~| {t} "x"\n#~ msgid "a"\n#~ msgstr "b"\n', '#~ {t} "x"\n', '{t} "x"\n', 'msgid "a"\n{t}\n', 'msgid "a{m}\nmsgstr ""\n',
                          'msgid "a" {m}\nmsgstr ""\n', 'msgid "a"\nmsgstr[{t}] "x"\n', 'msgid "a"\nmsgstr "b" "c{m}\n', 'msgid "a"\n"b"{t}\nmsgstr ""\n',
                          'msgctxt {t}\nmsgid "a"\nmsgstr ""\n', 'msgid "a"\nmsgid_plural {t}\nmsgstr[0] ""\n', 'domain {t}\n'):
                k += 1
                pth = os.path.join(tmp, f'syn{k}.po')
                open(pth, 'wb').write((good + '\n' + shape.format(t=tok, m=m)).encode('utf-8', 'surrogateescape'))
                jobs.append((pth, 'po-syntax', ['syntax-error line'], mk))
        while len(jobs) < nfiles:
            mk = rng.choice(sorted(G.MARKERS))
            cat, used = G.tainted_catalog(rng, mk)
            if rng.random() < 0.15:
                cat['distant_header'] = True
            if rng.random() < 0.05:
                cat['no_header'] = True
            if rng.random() < 0.1 and cat['entries']:
                cat['entries'][rng.randrange(len(cat['entries']))]['obsolete'] = True
            kind = rng.choice(['po', 'po', 'po', 'pot', 'mo'])
            idx += 1
            jobs.append((write_catalog(tmp, idx, cat, kind, rng), kind, used, mk))
        for path, kind, used, mk in jobs:
            ignore = ()
            if rng.random() < 0.1:
                ignore = tuple(rng.sample(sorted(registry), 5))
            calls, crash, stray = run_file(R, Capture, path, ignore)
            stats['files'] += 1
            stats['calls'] += len(calls)
            stats['crashes'] += crash is not None
            for s in used:
                stats['slots'][s] = stats['slots'].get(s, 0) + len(calls)
            if stray:
                stats['stray_stdout'] += 1
                findings.append(({'kind': 'stdout-outside-tag', 'key': 'stray-stdout', 'observed': ascii(stray[:300]), 'expected': "nothing is printed except by Checker.tag", 'tag': '-', 'where': '-'}, path, used, mk))
            for c in calls:
                stats['tags_seen'].add(c['tag'])
                stats['sites_seen'].add((c['file'], c['line']))
                for x in c['extras']:
                    if isinstance(x, T.safestr):
                        stats['safestr_extras'] += 1
                    else:
                        stats['escaped_extras'] += 1
                        if not isinstance(x, (bytes, int)) and G.hostile_chars(str(x)):
                            stats['escaped_extras_with_marker'] += 1
            for v in check_calls(R, calls, path, set(ignore), registry, sites):
                findings.append((v, path, used, mk))
            for c in calls:
                if c['exc'] is None:
                    lines.append(' '.join(['tags tag', '1' if c['tag'] in ignore else '0', hx(c['tag']), hx(path)] + [enc_extra(x, T) for x in c['extras']]))
                    outs.append('ok ' + hx(c['out']))
        replays = []
        seen = set()
        for v, path, used, mk in findings:
            if v['key'] in seen:
                continue
            seen.add(v['key'])
            data = open(path, 'rb').read() if os.path.isfile(path) else b''
            replays.append(dict(v, file_name=os.path.basename(path), marker=mk, slots=used,
                                file_content=data.decode('utf-8', 'backslashreplace') if not path.endswith('.mo') else None,
                                file_hex=data.hex() if len(data) < 6000 else data[:6000].hex() + '...',
                                replay=f'write file_hex to {os.path.basename(path)} and run: {common.PY} {common.REPO}/i18nspector {os.path.basename(path)} | cat -v'))
    finally:
        shutil.rmtree(tmp, ignore_errors=True)
    stats['tags_seen'] = sorted(stats['tags_seen'])
    stats['distinct_tags'] = len(stats['tags_seen'])
    stats['distinct_call_sites'] = len(stats.pop('sites_seen'))
    return replays, stats, lines, outs

# ------------------------------------------------------------------------------------------------ sequences (history independence)
#
# The property is about every call, whatever was formatted before it in the same process.  Everything above evaluates calls
# one by one in a process whose history is whatever the harness did before; the streams below control the history: SEQUENCES
# of calls (escaper / Tag.format / safe_format / message_repr / Checker.tag) and of files (several catalogs through
# Checker.check() in ONE process, and through one command line) in fresh worker processes, where a later file-derived
# str/bytes value equals — as text — something the tool handled earlier as `safestr`, and the other way round, and the same
# text as str, bytes, int, float, bool, str()-able object.  Every output is compared with the stateless reference, with the
# same call on a freshly loaded `lib.tags` (no history), and — by the parent — with the Lean model (stateless by construction).

import importlib.util, types

class StrObj:
    """an object the escaper sees through its str() (like ling.Language)"""
    def __init__(self, text):
        self.text = text
    def __str__(self):
        return self.text
    def __repr__(self):
        return f'StrObj({self.text!r})'

def dec_extra(tok, T):
    k, _, p = tok.partition(':')
    if k == 's':
        return T.safestr(unhx(p))
    if k == 'u':
        return unhx(p)
    if k == 'b':
        return b'' if p == '-' else bytes.fromhex(p)
    if k == 'i':
        return int(p)
    if k == 'B':
        return p == '1'
    if k == 'f':
        return float(p)
    if k == 'o':
        return StrObj(unhx(p))
    raise ValueError(tok)

def py_extra(tok):
    """source text of a typed extra, for replay scripts"""
    k, _, p = tok.partition(':')
    if k == 's':
        return f'tags.safestr({unhx(p)!a})'
    if k == 'u':
        return ascii(unhx(p))
    if k == 'b':
        return ascii(b'' if p == '-' else bytes.fromhex(p))
    if k == 'i':
        return p
    if k == 'B':
        return 'True' if p == '1' else 'False'
    if k == 'f':
        return repr(float(p))
    return f'StrObj({unhx(p)!a})'

def py_call(c):
    xs = ', '.join(py_extra(t) for t in c.get('xs', []))
    op = c['op']
    if op == 'escape':
        return f'tags._escape({xs})'
    if op == 'format':
        return f"tags.get_tag({c['tag']!a}).format({c['path']!a}{', ' + xs if xs else ''})"
    if op == 'sformat':
        kw = ', '.join(f'**{{{k!a}: {py_extra(v)}}}' for k, v in c.get('kws', []))
        return f"tags.safe_format({', '.join([ascii(c['tpl'])] + ([xs] if xs else []) + ([kw] if kw else []))})"
    if op == 'msgrepr':
        return f"message_repr(types.SimpleNamespace(msgid={c['msgid']!a}, msgctxt={c['ctxt']!a}), template={c['tpl']!a})"
    if op == 'tag':
        return f"tag_out({c['path']!a}, {c['tag']!a}{', ' + xs if xs else ''})"
    if op == 'tagmsg':
        return (f"tag_out({c['path']!a}, {c['tag']!a}, message_repr(types.SimpleNamespace(msgid={c['msgid']!a}, msgctxt={c['ctxt']!a}), "
                f"template={c['tpl']!a}){', ' + xs if xs else ''})")
    return repr(c)

REPLAY_PRELUDE = '''import sys, io, types, argparse, contextlib
sys.dont_write_bytecode = True
sys.path.insert(0, {repo!r})
from lib import tags, cli
from lib.check.msgrepr import message_repr
cli.Checker.patch_environment()
class StrObj:
    def __init__(self, t): self.t = t
    def __str__(self): return self.t
def tag_out(path, name, *extra):
    ck = cli.Checker(path, options=argparse.Namespace(ignore_tags=set(), fake_root=None))
    buf = io.StringIO()
    with contextlib.redirect_stdout(buf):
        ck.tag(name, *extra)
    return buf.getvalue()
'''

def replay_script(calls):
    return REPLAY_PRELUDE.format(repo=common.REPO) + ''.join(f'print(ascii({py_call(c)}))\n' for c in calls)

def fresh_tags():
    """lib/tags.py executed again as a new module object: the same code with no history"""
    spec = importlib.util.spec_from_file_location('lib.tags', os.path.join(common.REPO, 'lib', 'tags.py'))
    m = importlib.util.module_from_spec(spec)
    spec.loader.exec_module(m)
    return m

@contextlib.contextmanager
def using_tags(R, T):
    """let cli.Checker.tag / msgrepr.message_repr resolve `tags` to the module object T for the duration"""
    saved = R.cli.tags, R.msgrepr.tags
    R.cli.tags = R.msgrepr.tags = T
    try:
        yield
    finally:
        R.cli.tags, R.msgrepr.tags = saved

def ref_message_repr(msgid, ctxt, tpl, safestr_type=()):
    sub = 'msgid {id}'
    kw = {'id': ref_escape(msgid, safestr_type)}
    if ctxt is not None:
        sub += ' msgctxt {ctxt}'
        kw['ctxt'] = ref_escape(ctxt, safestr_type)
    return tpl.format(sub).format(**kw)

def exec_call(R, T, c, registry):
    """one call of a sequence on the real code, with `T` as the tags module.  Returns [(protocol line, real outcome, reference
    outcome)] — one entry, two for `tagmsg` (message_repr, then Checker.tag with its result)."""
    op = c['op']
    xs = [dec_extra(t, T) for t in c.get('xs', [])]
    sev = sorted(T.severities, key=lambda x: x.value)
    cer = sorted(T.certainties, key=lambda x: x.value)
    def ref_line(name, path, vals):
        s, ce = registry[name]
        return f'{REF_LETTER[s][ce]}: {path}: {name}' + ''.join(' ' + ref_escape(v, T.safestr) for v in vals)
    with using_tags(R, T):
        if op == 'escape':
            return [('tags escape ' + enc_extra(xs[0], T), canon(lambda: T._escape(xs[0])), canon(lambda: ref_escape(xs[0], T.safestr)))]
        if op == 'format':
            tag = T.get_tag(c['tag'])
            line = ' '.join(['tags format', str(sev.index(tag.severity)), str(cer.index(tag.certainty)), hx(tag.name), hx(c['path']), '0', '-', '-'] + [enc_extra(x, T) for x in xs])
            return [(line, canon(lambda: tag.format(c['path'], *xs)), canon(lambda: ref_line(c['tag'], c['path'], xs)))]
        if op == 'sformat':
            kws = {k: dec_extra(v, T) for k, v in c.get('kws', [])}
            line = ' '.join(['tags sformat', hx(c['tpl'])] + ['a:' + enc_extra(x, T) for x in xs] + ['w:' + hx(k) + ':' + enc_extra(v, T) for k, v in kws.items()])
            return [(line, canon(lambda: T.safe_format(c['tpl'], *xs, **kws)),
                     canon(lambda: c['tpl'].format(*[ref_escape(x, T.safestr) for x in xs], **{k: ref_escape(v, T.safestr) for k, v in kws.items()})))]
        msg = types.SimpleNamespace(msgid=c.get('msgid'), msgctxt=c.get('ctxt'))
        if op == 'msgrepr':
            line = ' '.join(['tags msgrepr', hx(c['tpl']), hx(msg.msgid), '~' if msg.msgctxt is None else hx(msg.msgctxt)])
            return [(line, canon(lambda: R.msgrepr.message_repr(msg, template=c['tpl'])), canon(lambda: ref_message_repr(msg.msgid, msg.msgctxt, c['tpl'])))]
        ck = R.checker(c['path'])
        if op == 'tag':
            line = ' '.join(['tags tag', '0', hx(c['tag']), hx(c['path'])] + [enc_extra(x, T) for x in xs])
            return [(line, canon(lambda: R.tag_out(ck, c['tag'], xs)), canon(lambda: ref_line(c['tag'], c['path'], xs) + '\n'))]
        if op == 'tagmsg':
            l1 = ' '.join(['tags msgrepr', hx(c['tpl']), hx(msg.msgid), '~' if msg.msgctxt is None else hx(msg.msgctxt)])
            try:
                r = R.msgrepr.message_repr(msg, template=c['tpl'])
                o1 = 'ok ' + hx(r)
            except Exception as exc:
                return [(l1, 'err ' + type(exc).__name__, canon(lambda: ref_message_repr(msg.msgid, msg.msgctxt, c['tpl'])))]
            e1 = canon(lambda: ref_message_repr(msg.msgid, msg.msgctxt, c['tpl']))
            if not isinstance(r, T.safestr):
                o1 = 'ok-not-safestr ' + hx(str(r))
            vals = [r] + xs
            l2 = ' '.join(['tags tag', '0', hx(c['tag']), hx(c['path'])] + [enc_extra(x, T) for x in vals])
            rvals = [T.safestr(ref_message_repr(msg.msgid, msg.msgctxt, c['tpl']))] + xs
            return [(l1, o1, e1), (l2, canon(lambda: R.tag_out(ck, c['tag'], vals)), canon(lambda: ref_line(c['tag'], c['path'], rvals) + '\n'))]
    raise ValueError(op)

def show(o):
    return ascii(unhx(o[3:])) if o.startswith('ok ') else o

def run_unit_sequences(R, registry, seqs, fresh_budget, res, history):
    """every sequence on the long-lived `lib.tags` of this process (history = everything this worker did before)"""
    T = R.tags
    nfresh = 0
    for sq in seqs:
        for i, c in enumerate(sq['calls']):
            try:
                got = exec_call(R, T, c, registry)
            except Exception as exc:
                got = [('tags ? ' + c['op'], 'err harness ' + type(exc).__name__, 'ok ?')]
            history.append(c)
            res['stats']['unit_calls'] += 1
            res['stats']['ops'][c['op']] = res['stats']['ops'].get(c['op'], 0) + 1
            fresh = None
            last = i == len(sq['calls']) - 1
            bad = any(o != e for _l, o, e in got)
            if (last and nfresh < fresh_budget) or bad:
                nfresh += 1
                try:
                    fresh = exec_call(R, fresh_tags(), c, registry)
                    res['stats']['fresh_calls'] += 1
                except Exception as exc:
                    fresh = None
            for k, (line, o, e) in enumerate(got):
                if not line.startswith('tags ?'):
                    res['lines'].append(line)
                    res['outs'].append(o)
                fo = fresh[k][1] if fresh is not None and k < len(fresh) else None
                if o != e or (fo is not None and fo != o):
                    if len(res['violations']) >= 60:
                        continue
                    # does the sequence alone reproduce it, on a module without any history?
                    alone = None
                    try:
                        T2 = fresh_tags()
                        outs2 = [exec_call(R, T2, c2, registry) for c2 in sq['calls'][:i + 1]]
                        alone = outs2[-1][k][1] == o if k < len(outs2[-1]) else None
                    except Exception:
                        pass
                    calls = sq['calls'][:i + 1] if alone else history[-400:]
                    res['violations'].append({
                        'kind': 'history-dependent-output' if (fo is not None and fo != o) else 'sequence-output-differs-from-reference',
                        'key': 'sequence:' + sq['what'], 'tag': c.get('tag', '-'), 'where': 'unit sequence: ' + sq['what'],
                        'input': ' ; '.join(py_call(c2) for c2 in sq['calls'][:i + 1]),
                        'call': py_call(c), 'observed': show(o), 'expected': show(e),
                        'same_call_without_history': None if fo is None else show(fo),
                        'reproduces_with_this_sequence_alone_in_a_fresh_process': alone,
                        'calls_before_in_this_process': len(history) - (i + 1),
                        'sequence': [py_call(c2) for c2 in calls],
                        'replay': 'save replay_script to r.py and run: ' + common.PY + ' r.py   (prints every call\'s result; the last line is the failing one)',
                        'replay_script': replay_script(calls)})
    return res

def run_e2e_sequences(R, registry, seqs, tmp, res):
    """several catalogs through Checker.check() one after the other in THIS process; the property on every captured call"""
    T = R.tags
    Capture = make_capture(R)
    for sq in seqs:
        files = []
        for j, f in enumerate(sq['files']):
            d = os.path.join(tmp, f"s{sq['id']}", str(j))
            os.makedirs(d, exist_ok=True)
            path = os.path.join(d, f['name'])
            os.makedirs(os.path.dirname(path), exist_ok=True)
            data = bytes.fromhex(f['hex'])
            open(path, 'wb').write(data)
            files.append((path, f, data))
        for j, (path, f, data) in enumerate(files):
            calls, crash, stray = run_file(R, Capture, path, ())
            res['stats']['e2e_files'] += 1
            res['stats']['e2e_calls'] += len(calls)
            res['stats']['e2e_crashes'] += crash is not None
            for c in calls:
                res['stats']['tags_seen'].add(c['tag'])
                if c['exc'] is None:
                    res['lines'].append(' '.join(['tags tag', '0', hx(c['tag']), hx(path)] + [enc_extra(x, T) for x in c['extras']]))
                    res['outs'].append('ok ' + hx(c['out']))
            bad = check_calls(R, calls, path, set(), registry, None)
            if stray:
                bad.append({'kind': 'stdout-outside-tag', 'key': 'stray-stdout', 'observed': ascii(stray[:300]), 'expected': 'nothing is printed except by Checker.tag', 'tag': '-', 'where': '-'})
            for v in bad[:2]:
                if len(res['violations']) >= 60:
                    break
                names = [os.path.relpath(p, tmp) for p, _f, _d in files[:j + 1]]
                res['violations'].append(dict(
                    v, key='sequence:' + v['key'], where=f"{v.get('where')} (file {j + 1} of a {len(files)}-file sequence: {sq['what']})",
                    input=f"{len(names)} file(s) checked one after the other in one process: " + ' '.join(names),
                    planted=sq.get('planted'),
                    files=[{'name': os.path.relpath(p, tmp), 'content': d.decode('utf-8', 'backslashreplace') if not p.endswith('.mo') else None, 'hex': d.hex()}
                           for p, _f, d in files[:j + 1]],
                    replay=f"write the files (hex) and run: {common.PY} {common.REPO}/i18nspector {' '.join(names)} | cat -v"))
    return res

def seq_worker_main():
    job = json.load(sys.stdin)
    R = Real()
    registry = registry_from_file()
    res = {'violations': [], 'lines': [], 'outs': [],
           'stats': {'unit_calls': 0, 'fresh_calls': 0, 'ops': {}, 'e2e_files': 0, 'e2e_calls': 0, 'e2e_crashes': 0, 'tags_seen': set()}}
    history = []
    tmp = tempfile.mkdtemp(prefix='i18n-verif-c02seq.')
    try:
        for part in job['order']:
            if part == 'e2e':
                run_e2e_sequences(R, registry, job['e2e'], tmp, res)
            else:
                run_unit_sequences(R, registry, job['unit'], job['fresh_budget'], res, history)
    finally:
        shutil.rmtree(tmp, ignore_errors=True)
    res['stats']['tags_seen'] = sorted(res['stats']['tags_seen'])
    with open(job['result'], 'w') as f:
        json.dump(res, f)

# ---- generation (parent)

SEQ_BASES = ['msgid foo:', 'a b', "it's", 'PO-Revision-Date:', 'x =>', '(empty string) ', "'a b'", "b'x'", 'say "x"', 'back\\slash', 'fox\n',
             '\x1b[31m', 'żółw ☃', '12 ', 'msgid foo msgctxt bar:', 'I: x.po: unknown-message-flag msgid foo: bar']
SEQ_SPECIALS = ['', '(empty string)', 'x', '0', '1', '-1', 'True', '1.0', "''", 'None']
SEQ_TAGS = ['unknown-message-flag', 'invalid-date', 'stray-header-line', 'duplicate-message-definition', 'os-error']
SEQ_KINDS = 'subo'

def typed_tok(kind, text):
    if kind == 'b':
        return 'b:' + (text.encode('utf-8', 'surrogatepass').hex() or '-')
    return kind + ':' + hx(text)

def unit_call(rng, op, toks, text=None):
    tagname = rng.choice(SEQ_TAGS)
    path = rng.choice(['x.po', 'dir/a b.po'])
    if op == 'escape':
        return {'op': 'escape', 'xs': toks[:1]}
    if op == 'format':
        return {'op': 'format', 'tag': tagname, 'path': path, 'xs': toks}
    if op == 'sformat':
        return {'op': 'sformat', 'tpl': rng.choice(['{}', '({})', '{}:', 'f({}): x']) if len(toks) == 1 else ' '.join(['{}'] * len(toks)), 'xs': toks}
    if op == 'sformat_kw':
        return {'op': 'sformat', 'tpl': 'msgid {id}', 'xs': [], 'kws': [['id', toks[0]]]}
    if op == 'tag':
        return {'op': 'tag', 'tag': tagname, 'path': path, 'xs': toks}
    raise ValueError(op)

def gen_unit_sequences(chk):
    """(a) pairs: the same text under two types through two entry points, every ordered pair of types, unique text per
    sequence so that the only relevant history is the sequence itself; (b) the tool's own message identification printed
    as safestr, then the same characters as file text (and the reverse); (c) specials that cannot be made unique ('' …),
    numbers equal as dict keys (1, True, 1.0, '1'); (d) random longer sequences over a few texts"""
    rng = chk.rng
    ops = ['escape', 'format', 'sformat', 'sformat_kw', 'tag']
    seqs = []
    n = 0
    for base in SEQ_BASES:
        for k1 in SEQ_KINDS:
            for k2 in SEQ_KINDS:
                pairs = [(a, b) for a in ops for b in ops]
                if not chk.thorough:
                    pairs = rng.sample(pairs, 5)
                for o1, o2 in pairs:
                    n += 1
                    text = f'{base}{n}'
                    c1 = unit_call(rng, o1, [typed_tok(k1, text)])
                    c2 = unit_call(rng, o2, [typed_tok(k2, text)])
                    seqs.append({'what': f'{k1}:{o1} then {k2}:{o2}', 'calls': [c1, c2]})
    # (b) message_repr output as safestr, later the same characters from the file — and the reverse
    for _ in range(400 if chk.thorough else 80):
        n += 1
        msgid = rng.choice([f'foo{n}', f'two words{n}', f"it's{n}", f'ż{n}'])
        ctxt = rng.choice([None, None, f'ctx{n}', f'c t{n}'])
        tpl = rng.choice(['{}:', '{}', '({})'])
        text = ref_message_repr(msgid, ctxt, tpl)
        k2 = rng.choice('uuubo')
        first = {'op': 'tagmsg', 'tag': 'unknown-message-flag', 'path': 'pl.po', 'tpl': tpl, 'msgid': msgid, 'ctxt': ctxt, 'xs': [typed_tok('u', 'fancy-flag')]}
        other = {'op': 'tagmsg', 'tag': 'unknown-message-flag', 'path': 'pl.po', 'tpl': tpl, 'msgid': f'bar{n}', 'ctxt': None, 'xs': [typed_tok(k2, text)]}
        alt = unit_call(rng, rng.choice(ops), [typed_tok(k2, text)])
        second = rng.choice([other, other, alt])
        as_msgid = {'op': 'tagmsg', 'tag': 'duplicate-message-definition', 'path': 'pl.po', 'tpl': '{}', 'msgid': text, 'ctxt': rng.choice([None, text]), 'xs': []}
        order = rng.choice([[first, second], [second, first], [first, as_msgid], [as_msgid, first], [first, second, first, as_msgid]])
        seqs.append({'what': 'message identification as tool text and as file text', 'calls': order})
    # (b') the same arguments except one: other path, other tag, other template, with / without msgctxt (a memo keyed by too little)
    for _ in range(200 if chk.thorough else 40):
        n += 1
        text = f'{rng.choice(SEQ_BASES)}{n}'
        toks = [typed_tok(rng.choice(SEQ_KINDS), text)]
        t1, t2 = rng.sample(SEQ_TAGS, 2)
        calls = [{'op': 'tag', 'tag': t1, 'path': 'a.po', 'xs': toks}, {'op': 'tag', 'tag': t1, 'path': 'dir/b.po', 'xs': toks}, {'op': 'tag', 'tag': t2, 'path': 'a.po', 'xs': toks},
                 {'op': 'format', 'tag': t1, 'path': 'a.po', 'xs': toks}, {'op': 'format', 'tag': t2, 'path': 'c.po', 'xs': toks + toks},
                 {'op': 'msgrepr', 'tpl': '{}', 'msgid': text, 'ctxt': None}, {'op': 'msgrepr', 'tpl': '{}', 'msgid': text, 'ctxt': f'c {n}'},
                 {'op': 'msgrepr', 'tpl': '{}:', 'msgid': text, 'ctxt': None}, {'op': 'msgrepr', 'tpl': '({})', 'msgid': text, 'ctxt': text},
                 {'op': 'sformat', 'tpl': '{}', 'xs': toks}, {'op': 'sformat', 'tpl': '{}:', 'xs': toks}, {'op': 'sformat', 'tpl': '{0} {0}', 'xs': toks}]
        rng.shuffle(calls)
        seqs.append({'what': 'same text, one other argument changed', 'calls': calls})
    # (c) specials
    sp = []
    for t in SEQ_SPECIALS:
        kinds = list('subo')
        rng.shuffle(kinds)
        sp += [unit_call(rng, rng.choice(ops), [typed_tok(k, t)]) for k in kinds]
    sp += [{'op': 'escape', 'xs': [t]} for t in rng.sample(['i:1', 'B:1', 'f:1.0', 'u:31', 's:31', 'i:0', 'B:0', 'f:0.0', 'f:-0.0', 'i:-1', 'f:-1.0', 'b:31'], 12)]
    seqs.append({'what': 'specials', 'calls': sp})
    seqs.append({'what': 'specials reversed', 'calls': sp[::-1]})
    # (d) random longer sequences
    for _ in range(1500 if chk.thorough else 250):
        n += 1
        texts = [f'{rng.choice(SEQ_BASES)}{n}', f'{rng.choice(SEQ_BASES)}{n}', rng.choice(SEQ_SPECIALS)]
        calls = []
        for _ in range(rng.randint(3, 8)):
            toks = [typed_tok(rng.choice(SEQ_KINDS), rng.choice(texts)) for _ in range(rng.choice([1, 1, 2, 3]))]
            calls.append(unit_call(rng, rng.choice(['escape', 'format', 'sformat', 'tag', 'tag']), toks))
        seqs.append({'what': 'random sequence over three texts', 'calls': calls})
    return seqs

def plant_exact(cat, t, how, u, j):
    """file text EQUAL to t in one slot whose content the tool prints"""
    if how == 'flag':
        cat['entries'].append({'msgid': f'bar{u}-{j}', 'msgstr': 'y', 'flags': [t]})
    elif how == 'msgid':
        cat['entries'].append({'msgid': t, 'msgstr': 'y', 'flags': ['fancy-flag']})
    elif how == 'msgctxt':
        cat['entries'].append({'msgctxt': t, 'msgid': f'c{u}-{j}', 'msgstr': 'y', 'flags': ['fancy-flag']})
    elif how == 'dup':
        cat['entries'] += [{'msgid': t, 'msgstr': 'y'}, {'msgid': t, 'msgstr': 'z'}]
    elif how == 'stray':
        cat['header'].append((None, t))
    elif how == 'hdrkey':
        cat['header'].append((t.replace(':', '').strip() or 'k', 'v'))
    elif how == 'poedit':
        G.set_header(cat, 'X-Poedit-Language', t)
    elif how == 'fmtkey':
        key = t.replace('(', '').replace(')', '').replace('%', '')
        cat['entries'].append({'flags': ['python-format'], 'msgid': '%(a)s', 'msgstr': f'%({key})s'})
    else:
        G.set_header(cat, how, t)

PLANT_SLOTS = ['flag', 'flag', 'msgid', 'msgctxt', 'dup', 'stray', 'hdrkey', 'poedit', 'fmtkey', 'PO-Revision-Date', 'POT-Creation-Date', 'Language',
               'Content-Type', 'MIME-Version', 'Content-Transfer-Encoding', 'Last-Translator', 'Language-Team', 'Report-Msgid-Bugs-To', 'Project-Id-Version']

def gen_e2e_sequences(chk, R, count):
    """catalog A whose problems make the tool print its own texts (message identifications, header names, …); these texts
    are harvested from the tag() ARGUMENTS of a run of A (safestr extras) and from the reference lines, and planted as exact
    file text (flag, msgid, msgctxt, header value/key, stray line, format key) into: A itself (one file: message-level slots come
    after, header-level slots before the tool text), and a second catalog B checked after A and before A"""
    T = R.tags
    rng = chk.rng
    Capture = make_capture(R)
    registry = registry_from_file()
    tmp = tempfile.mkdtemp(prefix='i18n-verif-c02h.')
    seqs = []
    harvested = 0
    try:
        for n in range(count):
            u = str(n)
            def mkA():
                A = G.base_catalog()
                A['entries'] += [{'msgid': f'foo{u}', 'msgstr': 'x', 'flags': ['fancy-flag']},
                                 {'msgid': f'two words{u}', 'msgstr': 'x', 'flags': [f'odd-flag{u}']},
                                 {'msgctxt': f'ctx{u}', 'msgid': f'dup{u}', 'msgstr': 'x'}, {'msgctxt': f'ctx{u}', 'msgid': f'dup{u}', 'msgstr': 'y'}]
                return A
            A = mkA()
            extra_slots = []
            if n % 3:
                S = G.slots(f'q{u} z', rng)
                extra_slots = rng.sample(sorted(S), 2)
                for s in extra_slots:
                    S[s](A)
            textA = G.render_po(A)
            d = os.path.join(tmp, u)
            os.makedirs(d)
            pa = os.path.join(d, 'pl.po')
            open(pa, 'wb').write(textA.encode('utf-8', 'surrogateescape'))
            calls, _crash, _stray = run_file(R, Capture, pa, ())
            cands = []
            for c in calls:
                for x in c['extras']:
                    if isinstance(x, T.safestr):
                        cands.append(str.__str__(x))
                if c['tag'] in registry:
                    toks = [ref_escape(x, T.safestr) for x in c['extras']]
                    cands += [t for t in toks if t[:1] in '\'"']                                     # what the tool printed for file text
                    cands.append(' '.join([c['tag']] + toks))                                        # the line without its head
            cands = sorted({t for t in cands if t and not SAFE_WORD.fullmatch(t) and '\n' not in t and ',' not in t and t == t.strip() and len(t) < 200})
            if not cands:
                continue
            harvested += len(cands)
            uniq = [t for t in cands if u in t]
            picks = rng.sample(uniq, min(len(uniq), 3)) + rng.sample(cands, min(len(cands), 2))
            plants = [(t, rng.choice(PLANT_SLOTS)) for t in picks]
            if n == 0:
                plants = [(f'msgid foo{u}:', 'flag'), (f'msgid foo{u}:', 'Project-Id-Version')] + plants
            one = G.base_catalog()
            one['entries'] = A['entries'][:]
            one['header'] = A['header'][:]
            for k in ('initial_comments', 'header_refs', 'header_flags', 'header_plural'):
                if k in A:
                    one[k] = A[k]
            B = G.base_catalog()
            for j, (t, how) in enumerate(plants):
                plant_exact(one, t, how, u, j)
                plant_exact(B, t, how, u, j)
            fa = {'name': 'pl.po', 'hex': textA.encode('utf-8', 'surrogateescape').hex()}
            if rng.random() < 0.2:
                fb = {'name': 'b.mo', 'hex': G.mo_bytes(B).hex()}
            else:
                fb = {'name': 'de.po', 'hex': G.render_po(B).encode('utf-8', 'surrogateescape').hex()}
            f1 = {'name': 'pl.po', 'hex': G.render_po(one).encode('utf-8', 'surrogateescape').hex()}
            planted = [{'text': t, 'slot': how} for t, how in plants]
            seqs.append({'what': 'one file: its own tool text planted as file text', 'files': [f1], 'planted': planted, 'slots': extra_slots})
            seqs.append({'what': 'A then B (B carries text the tool printed for A)', 'files': [fa, fb], 'planted': planted, 'slots': extra_slots})
            seqs.append({'what': 'B then A (file text first, the same characters as tool text later)', 'files': [fb, fa], 'planted': planted, 'slots': extra_slots})
            if n % 4 == 0:
                seqs.append({'what': 'the same catalog under two paths', 'files': [fa, dict(fa, name='copy/pl_PL.po')], 'planted': [], 'slots': extra_slots})
    finally:
        shutil.rmtree(tmp, ignore_errors=True)
    for i, sq in enumerate(seqs):
        sq['id'] = i
    return seqs, harvested

def sequence_stream(chk, R, workers=3):
    """run the sequences in fresh worker processes (controlled history); returns (violation dicts, stats, lines, outs)"""
    unit = gen_unit_sequences(chk)
    e2e, harvested = gen_e2e_sequences(chk, R, 60 if chk.thorough else 16)
    tmp = tempfile.mkdtemp(prefix='i18n-verif-c02w.')
    procs = []
    try:
        for w in range(workers):
            job = {'unit': unit[w::workers], 'e2e': e2e[w::workers], 'fresh_budget': 400 if chk.thorough else 60,
                   'order': ['e2e', 'unit'] if w % 2 == 0 else ['unit', 'e2e'], 'result': os.path.join(tmp, f'r{w}.json')}
            if w % 2:
                job['unit'] = job['unit'][::-1]
            p = subprocess.Popen([common.PY, os.path.abspath(__file__), '--seq-worker'], stdin=subprocess.PIPE, stdout=subprocess.PIPE, stderr=subprocess.PIPE,
                                 env=dict(os.environ, PYTHONDONTWRITEBYTECODE='1', PYTHONHASHSEED='0'))
            procs.append((p, job))
            p.stdin.write(json.dumps(job).encode())
            p.stdin.close()
        violations, lines, outs = [], [], []
        stats = {'workers': workers, 'unit_sequences': len(unit), 'e2e_sequences': len(e2e), 'harvested_tool_texts': harvested, 'unit_calls': 0, 'fresh_calls': 0,
                 'ops': {}, 'e2e_files': 0, 'e2e_calls': 0, 'e2e_crashes': 0, 'tags_seen': set()}
        for p, job in procs:
            err = p.stderr.read().decode('utf-8', 'replace')
            p.stdout.read()
            rc = p.wait(timeout=600)
            if rc != 0 or not os.path.exists(job['result']):
                # the worker died on the real code (import error of a modified tree …): an outcome, not an infrastructure failure
                violations.append({'kind': 'sequence-worker-crash', 'key': 'sequence:worker-crash', 'tag': '-', 'where': 'sequence worker', 'observed': err[-800:], 'expected': 'the worker finishes',
                                   'no_input': True})
                continue
            r = json.load(open(job['result']))
            violations += r['violations']
            lines += r['lines']
            outs += r['outs']
            for k in ('unit_calls', 'fresh_calls', 'e2e_files', 'e2e_calls', 'e2e_crashes'):
                stats[k] += r['stats'][k]
            for k, v in r['stats']['ops'].items():
                stats['ops'][k] = stats['ops'].get(k, 0) + v
            stats['tags_seen'].update(r['stats']['tags_seen'])
    finally:
        for p, _job in procs:
            if p.poll() is None:
                p.kill()
        shutil.rmtree(tmp, ignore_errors=True)
    stats['tags_seen'] = sorted(stats['tags_seen'])
    stats['violations_before_dedup'] = len(violations)
    # the most damaging first: file text that comes out unquoted; one replay per (kind, key, direction), at most 8
    def prio(v):
        raw = str(v.get('grammar') or '').find('file-derived value') >= 0 or (v.get('kind', '').startswith(('history', 'sequence-output')) and 'safestr' not in v.get('call', ''))
        return (0 if raw else 1, v.get('kind', ''), v.get('key', ''))
    violations.sort(key=prio)
    seen, kept, rest = set(), [], []
    for v in violations:                      # first the best one of every kind, then others with new keys
        (kept if v.get('kind') not in seen else rest).append(v)
        seen.add(v.get('kind'))
    for v in rest:
        k = (prio(v)[0], v.get('kind'), v.get('key'))
        if k not in seen and len(kept) < 8:
            seen.add(k)
            kept.append(v)
    return kept, stats, lines, outs, e2e

def falsify_cli_sequences(chk, R, e2e, count):
    """the real command line: `i18nspector A B` (one process) prints what `i18nspector A` followed by `i18nspector B` print"""
    import e2e_common as E
    two = [sq for sq in e2e if len(sq['files']) == 2][:count]
    tried = 0
    with E.Workdir() as wd:
        jobs = []
        for sq in two:
            names = []
            for j, f in enumerate(sq['files']):
                names.append(os.path.relpath(wd.write(f"c{sq['id']}/{j}/{f['name']}", bytes.fromhex(f['hex'])), wd.path))
            jobs.append((sq, names))
        def one(job):
            sq, names = job
            return E.run_cli(names, wd.path), [E.run_cli([nm], wd.path) for nm in names]
        for (sq, names), (both, single) in zip(jobs, E.parallel(one, jobs, workers=4)):
            tried += 1
            exp = ''.join(s['stdout'] for s in single)
            if both['stdout'] != exp or both['timeout']:
                bl, el = both['stdout'].splitlines(), exp.splitlines()
                k = next((i for i, (a, b) in enumerate(zip(bl, el)) if a != b), min(len(bl), len(el)))
                return {'kind': 'cli-output-depends-on-earlier-file', 'input': 'i18nspector ' + ' '.join(names), 'planted': sq.get('planted'),
                        'observed': ascii(bl[k]) if k < len(bl) else f'{len(bl)} lines', 'expected': ascii(el[k]) if k < len(el) else f'{len(el)} lines',
                        'files': [{'name': nm, 'content': bytes.fromhex(f['hex']).decode('utf-8', 'backslashreplace') if not nm.endswith('.mo') else None, 'hex': f['hex']}
                                  for nm, f in zip(names, sq['files'])],
                        'replay': f"write the files and compare: {common.PY} {common.REPO}/i18nspector {' '.join(names)}   with   " +
                                  ' ; '.join(f'{common.PY} {common.REPO}/i18nspector {nm}' for nm in names)}, tried
    chk.coverage['cli_sequences'] = {'pairs': tried}
    return None, tried

if __name__ == '__main__':
    if '--seq-worker' in sys.argv:
        seq_worker_main()
