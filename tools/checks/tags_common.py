"""C02: correspondence streams (real lib.tags / cli.Checker.tag vs the Lean driver), the dynamic taint stream and the
falsifiers on the REAL code (independent of the Lean model: their reference is a 12-line re-implementation of the
documented escaping rule on top of CPython's repr, plus character categories from unicodedata)."""
import ast, contextlib, io, json, os, re, subprocess, sys, tempfile, shutil, unicodedata, argparse
sys.path.insert(0, os.path.join(os.path.dirname(os.path.abspath(__file__)), '..'))
import common
from gen import tagscat as G

common.setup_repo_import()

# ------------------------------------------------------------------------------------------------ protocol helpers

def hx(s):
    return '.'.join('%x' % ord(ch) for ch in s) if s else '-'

def unhx(t):
    return '' if t == '-' else ''.join(chr(int(x, 16)) for x in t.split('.'))

def enc_extra(x, T):
    if isinstance(x, T.safestr):
        return 's:' + hx(str.__str__(x))
    if isinstance(x, bytes):
        return 'b:' + (x.hex() or '-')
    if isinstance(x, bool):
        return 'u:' + hx(str(x))
    if isinstance(x, int):
        return 'i:%d' % x
    return 'u:' + hx(str(x))

def canon(fn):
    try:
        r = fn()
    except Exception as exc:
        return 'err ' + type(exc).__name__
    return 'ok ' + hx(r)

# ------------------------------------------------------------------------------------------------ independent reference

SAFE_WORD = re.compile(r'[A-Za-z0-9_.!<>=-]+')

def ref_escape(x, safestr_type):
    """the documented rule, re-implemented: safestr verbatim; bytes as a Python literal without the b; '' as
    (empty string); words over the safe class verbatim; everything else as a Python string literal"""
    if isinstance(x, safestr_type):
        return str.__str__(x)
    if isinstance(x, bytes):
        r = repr(x)
        assert r[0] == 'b'
        return r[1:]
    s = str(x)
    if s == '':
        return '(empty string)'
    if SAFE_WORD.fullmatch(s):
        return s
    return repr(s)

REF_LETTER = {  # severity -> certainty -> letter, from the tag documentation (doc/tags.txt semantics), written by hand
    'pedantic': {'wild-guess': 'P', 'possible': 'P', 'certain': 'P'},
    'wishlist': {'wild-guess': 'I', 'possible': 'I', 'certain': 'I'},
    'minor': {'wild-guess': 'I', 'possible': 'I', 'certain': 'W'},
    'normal': {'wild-guess': 'I', 'possible': 'W', 'certain': 'W'},
    'important': {'wild-guess': 'W', 'possible': 'E', 'certain': 'E'},
    'serious': {'wild-guess': 'E', 'possible': 'E', 'certain': 'E'},
}

def registry_from_file():
    """data/tags parsed independently of lib.tags: {name: (severity, certainty)}"""
    import configparser
    cp = configparser.ConfigParser(interpolation=None, default_section='')
    cp.read(os.path.join(common.REPO, 'data', 'tags'), encoding='UTF-8')
    return {name: (sec['severity'], sec['certainty']) for name, sec in cp.items() if name}

def token_ok(tok, original, safestr_type):
    """is `tok` an acceptable escaped form of the non-safestr value `original`?  (property-level, no reference)"""
    if G.hostile_chars(tok):
        return False
    if isinstance(original, bytes):
        try:
            return ast.literal_eval('b' + tok) == original
        except Exception:
            return False
    s = str(original)
    if s == '':
        return tok == '(empty string)'
    if tok == s:
        return bool(SAFE_WORD.fullmatch(tok))
    try:
        return tok[:1] in ('"', "'") and ast.literal_eval(tok) == s
    except Exception:
        return False

# ------------------------------------------------------------------------------------------------ the real code

class Real:
    def __init__(self):
        from lib import tags, cli, terminal
        from lib.check import msgrepr
        self.tags, self.cli, self.terminal, self.msgrepr = tags, cli, terminal, msgrepr
        try:
            cli.Checker.patch_environment()
        except Exception:
            pass
    def options(self, ignore=()):
        return argparse.Namespace(ignore_tags=set(ignore), fake_root=None, language=None, file_type=None, unpack_deb=False, jobs=1)
    def checker(self, path, ignore=()):
        return self.cli.Checker(path, options=self.options(ignore))
    def tag_out(self, checker, name, extras):
        buf = io.StringIO()
        with contextlib.redirect_stdout(buf):
            checker.tag(name, *extras)
        return buf.getvalue()

def typed(kind, payload, T):
    if kind == 's':
        return T.safestr(payload)
    return payload

# ------------------------------------------------------------------------------------------------ unit correspondence

def gen_strings(chk):
    rng = chk.rng
    res = list(G.small_scope(2))
    if chk.thorough:
        res += list(G.small_scope(3, G.ALPHABET_SMALL[:12]))
    res += [chr(cp) for cp in G.boundary_codepoints()]
    res += [chr(cp) for cp in range(0x3000 if not chk.thorough else 0x30000)]
    res += [chr(rng.randrange(0x110000)) for _ in range(20000 if chk.thorough else 3000)]
    res += list(G.class_strings(rng, 40000 if chk.thorough else 4000))
    res += list(G.MARKERS.values()) + ['a' + m + 'b' for m in G.MARKERS.values()]
    res += ["it's", 'say "x"', 'both \' and "', '\\', 'a b', 'fox:', 'fox\n', '-', '.', 'a=b', 'x' * 300]
    return res

def stream_escape(chk, R):
    T = R.tags
    strings = gen_strings(chk)
    lines, outs = [], []
    classes = set()
    for s in strings:
        lines.append('tags escape u:' + hx(s))
        outs.append(canon(lambda: T._escape(s)))
        for ch in s[:3]:
            classes.add((unicodedata.category(ch), ch.isprintable()))
    rng = chk.rng
    for s in strings[:: (7 if chk.thorough else 23)]:
        lines.append('tags escape s:' + hx(s))
        outs.append(canon(lambda: T._escape(T.safestr(s))))
        lines.append('tags reprs ' + hx(s))
        outs.append(canon(lambda: repr(s)))
        lines.append('tags issafe ' + hx(s))
        outs.append('ok 1' if T._is_safe(s) else 'ok 0')
    bs = [bytes([b]) for b in range(256)] + [b'', b"'", b'"', b'\'"', b'it\'s', b'a b', b'\\x', bytes(range(256))]
    bs += [bytes(rng.randrange(256) for _ in range(rng.randint(1, 10))) for _ in range(3000 if chk.thorough else 500)]
    bs += [bytes(rng.choice(b'\'"\\a \n\xff\x7f') for _ in range(rng.randint(1, 5))) for _ in range(2000 if chk.thorough else 400)]
    for b in bs:
        lines.append('tags escape b:' + (b.hex() or '-'))
        outs.append(canon(lambda: T._escape(b)))
    for b in bs[::5]:
        lines.append('tags reprb ' + (b.hex() or '-'))
        outs.append(canon(lambda: repr(b)))
    ints = [0, 1, -1, 9, 10, 11, 99, 100, 101, -10, 2 ** 31, -2 ** 63, 10 ** 30, -10 ** 30 + 1] + [rng.randrange(-10 ** 12, 10 ** 12) for _ in range(500)] + list(range(-120, 1200))
    for n in ints:
        lines.append('tags escape i:%d' % n)
        outs.append(canon(lambda: T._escape(n)))
    chk.note_cases({('class',) + c for c in classes})
    chk.coverage.setdefault('code_point_classes_hit', sorted(f'{c}/{"printable" if p else "unprintable"}' for c, p in classes))
    return chk.stream('tags-escape', lines, outs)

def stream_priority(chk, R):
    T = R.tags
    sev = sorted(T.severities, key=lambda x: x.value)
    cer = sorted(T.certainties, key=lambda x: x.value)
    lines, outs = [], []
    for i, s in enumerate(sev):
        for j, c in enumerate(cer):
            lines.append(f'tags priority {i} {j}')
            try:
                outs.append('ok ' + T.Tag(name='probe', severity=s.name, certainty=c.name).get_priority())
            except Exception as exc:
                outs.append('err ' + type(exc).__name__)
    return chk.stream('tags-priority', lines, outs)

def random_extras(rng, T, pool):
    xs = []
    for _ in range(rng.choice([0, 0, 1, 1, 2, 3, 5])):
        k = rng.choice('suuubi')
        if k == 's':
            xs.append(T.safestr(rng.choice(pool)))
        elif k == 'u':
            xs.append(rng.choice(pool))
        elif k == 'b':
            xs.append(rng.choice(pool).encode('utf-8', 'surrogatepass')[: rng.randint(0, 6)])
        else:
            xs.append(rng.randrange(-50, 5000))
    return xs

def stream_format(chk, R, count):
    """Tag.format on registry tags and probe tags, colour off and colour on with arbitrary on/off strings
    (the two terminal functions Tag.get_colors() calls are replaced for the duration)"""
    T, term = R.tags, R.terminal
    rng = chk.rng
    sev = sorted(T.severities, key=lambda x: x.value)
    cer = sorted(T.certainties, key=lambda x: x.value)
    pool = list(G.class_strings(rng, 300, 8)) + list(G.MARKERS.values()) + ['', 'x', 'a b', "it's", 'foo-bar', 'PO-Revision-Date:']
    names = sorted(T._tags)
    lines, outs = [], []
    orig = term.attr_fg, term.attr_reset
    try:
        for _ in range(count):
            tag = T._tags[rng.choice(names)] if rng.random() < 0.7 else \
                T.Tag(name=rng.choice(['probe', 'x-y', rng.choice(pool) or 'p']), severity=rng.choice(sev).name, certainty=rng.choice(cer).name)
            path = rng.choice(['x.po', '/tmp/a b/c.po', 'd\xe9j\xe0.mo', rng.choice(pool) or 'p'])
            xs = random_extras(rng, T, pool)
            col = rng.random() < 0.5
            on, off = rng.choice(['\x1b[31m', '<', '', rng.choice(pool)]), rng.choice(['\x1b(B\x1b[m', '>', '', rng.choice(pool)])
            term.attr_fg = lambda i, on=on: on
            term.attr_reset = lambda off=off: off
            lines.append(' '.join(['tags format', str(sev.index(tag.severity)), str(cer.index(tag.certainty)), hx(tag.name), hx(path),
                                   '1' if col else '0', hx(on), hx(off)] + [enc_extra(x, T) for x in xs]))
            outs.append(canon(lambda: tag.format(path, *xs, color=col)))
    finally:
        term.attr_fg, term.attr_reset = orig
    return chk.stream('tags-format', lines, outs)

def stream_checker_tag(chk, R, count):
    """cli.Checker.tag: registry lookup, ignore_tags, unknown names, the printed line with its newline"""
    T = R.tags
    rng = chk.rng
    pool = list(G.class_strings(rng, 200, 8)) + list(G.MARKERS.values()) + ['', 'x', 'a b']
    names = sorted(T._tags)
    lines, outs = [], []
    for _ in range(count):
        name = rng.choice(names) if rng.random() < 0.8 else rng.choice(['no-such-tag', 'Ancient-Date', '', 'os-error ', rng.choice(pool)])
        ign = rng.random() < 0.2
        path = rng.choice(['x.po', '/tmp/a b/c.po', rng.choice(pool) or 'p'])
        xs = random_extras(rng, T, pool)
        ck = R.checker(path, ignore=[name] if ign else [])
        lines.append(' '.join(['tags tag', '1' if ign else '0', hx(name), hx(path)] + [enc_extra(x, T) for x in xs]))
        outs.append(canon(lambda: R.tag_out(ck, name, xs)))
    return chk.stream('tags-checker-tag', lines, outs)

SITE_TEMPLATES = ['{}', '({})', '{}:', 'overridden by {}', 'f({}): integer overflow', 'f({}): division by zero', '{} or {}', 'msgid {id}',
                  'msgid {id} msgctxt {ctxt}', '(implied by c-format)', 'f(3) = 7 >= 2', '{} or {} or {}']

def stream_safe_format(chk, R, count):
    T = R.tags
    rng = chk.rng
    pool = list(G.class_strings(rng, 200, 6)) + list(G.MARKERS.values()) + ['', 'x', 'a b', 'n==1']
    alpha = ['{', '}', '{', '}', 'a', 'b', '0', '1', ' ', '(', 'x']
    lines, outs = [], []
    for i in range(count):
        if i < len(SITE_TEMPLATES) * 4 or rng.random() < 0.3:
            tpl = SITE_TEMPLATES[i % len(SITE_TEMPLATES)]
        else:
            tpl = ''.join(rng.choice(alpha) for _ in range(rng.randint(0, 8)))
        args = random_extras(rng, T, pool)[:3]
        kws = {}
        for k in rng.sample(['id', 'ctxt', 'a', 'b', 'a0', ' ', 'x'], rng.randint(0, 3)):
            kws[k] = rng.choice(random_extras(rng, T, pool) or ['v'])
        enc = ['a:' + enc_extra(x, T) for x in args] + ['w:' + hx(k) + ':' + enc_extra(v, T) for k, v in kws.items()]
        lines.append(' '.join(['tags sformat', hx(tpl)] + enc))
        outs.append(canon(lambda: T.safe_format(tpl, *args, **kws)))
        # plain str.format on the same template (strings only)
        sargs = [str(a) if not isinstance(a, bytes) else 'b' for a in args]
        skws = {k: str(v) if not isinstance(v, bytes) else 'b' for k, v in kws.items()}
        lines.append(' '.join(['tags pyformat', hx(tpl)] + ['a:' + hx(a) for a in sargs] + ['w:' + hx(k) + ':' + hx(v) for k, v in skws.items()]))
        outs.append(canon(lambda: tpl.format(*sargs, **skws)))
    import types
    for _ in range(count // 2):
        msg = types.SimpleNamespace(msgid=rng.choice(pool), msgctxt=rng.choice([None, None] + pool))
        tpl = rng.choice(['{}', '({})', '{}:', '{}:', '{} {}', '{0}', 'x'])
        lines.append(' '.join(['tags msgrepr', hx(tpl), hx(msg.msgid), '~' if msg.msgctxt is None else hx(msg.msgctxt)]))
        outs.append(canon(lambda: R.msgrepr.message_repr(msg, template=tpl)))
    return chk.stream('tags-safe-format', lines, outs)

# ------------------------------------------------------------------------------------------------ unit falsifier (real code vs the property)

def falsify_escape(chk, R, strings):
    """property-direct on the real `_escape`, `Tag.format`: reference re-implementation + token/clean/round-trip checks"""
    T = R.tags
    tried = 0
    for s in strings:
        tried += 1
        try:
            out = T._escape(s)
        except Exception as exc:
            return {'kind': 'escape-crash', 'input': hx(s), 'input_repr': ascii(s), 'observed': repr(exc), 'expected': 'a string'}, tried
        exp = ref_escape(s, T.safestr)
        if out != exp or not token_ok(out, s, T.safestr):
            return {'kind': 'escape', 'input': hx(s), 'input_repr': ascii(s), 'observed': ascii(out), 'expected': ascii(exp),
                    'hostile_in_output': [hex(ord(c)) for c in G.hostile_chars(out)],
                    'replay': f"PYTHONPATH={common.REPO} {common.PY} -c \"from lib import tags; print(ascii(tags._escape({s!a})))\""}, tried
    for b in [bytes([i]) for i in range(256)] + [b'', b'\'"', b"it's \n\xff"]:
        tried += 1
        out = T._escape(b)
        if out != ref_escape(b, T.safestr) or not token_ok(out, b, T.safestr):
            return {'kind': 'escape-bytes', 'input': b.hex(), 'observed': ascii(out), 'expected': ascii(ref_escape(b, T.safestr))}, tried
    return None, tried

def falsify_registry(chk, R):
    """every registry tag: letter from an independent parse of data/tags and a hand-written severity x certainty table;
    monotonicity of the live get_priority"""
    T = R.tags
    reg = registry_from_file()
    if set(reg) != set(T._tags):
        return {'kind': 'registry', 'input': 'data/tags', 'observed': sorted(set(T._tags) ^ set(reg))[:5], 'expected': 'lib.tags._tags has exactly the sections of data/tags'}
    for name, (s, c) in sorted(reg.items()):
        got = T._tags[name].get_priority()
        if got != REF_LETTER[s][c]:
            return {'kind': 'priority', 'input': f'{name} severity={s} certainty={c}', 'observed': got, 'expected': REF_LETTER[s][c]}
    # unknown tag names are refused, registered ones print exactly one line
    for name in ('no-such-tag', '', 'Ancient-Date', 'ancient-date '):
        ck = R.checker('x.po')
        try:
            out = R.tag_out(ck, name, ['x'])
        except Exception as exc:
            if type(exc).__name__ != 'DataIntegrityError':
                return {'kind': 'unknown-tag', 'input': repr(name), 'observed': repr(exc), 'expected': 'DataIntegrityError'}
        else:
            return {'kind': 'unknown-tag', 'input': repr(name), 'observed': 'printed ' + ascii(out), 'expected': 'DataIntegrityError'}
    order = 'PIWE'
    sev = sorted(T.severities, key=lambda x: x.value)
    cer = sorted(T.certainties, key=lambda x: x.value)
    tab = {}
    for i, s in enumerate(sev):
        for j, c in enumerate(cer):
            try:
                tab[i, j] = T.Tag(name='p', severity=s.name, certainty=c.name).get_priority()
            except Exception as exc:
                return {'kind': 'priority', 'input': f'severity={s.name} certainty={c.name}', 'observed': repr(exc), 'expected': 'one of E W I P'}
            if tab[i, j] not in order or tab[i, j] != REF_LETTER[s.name][c.name]:
                return {'kind': 'priority', 'input': f'severity={s.name} certainty={c.name}', 'observed': tab[i, j], 'expected': REF_LETTER[s.name][c.name]}
    for (i, j), a in tab.items():
        for (k, l), b in tab.items():
            if i <= k and j <= l and order.index(a) > order.index(b):
                return {'kind': 'priority-monotone', 'input': f'({sev[i].name},{cer[j].name}) <= ({sev[k].name},{cer[l].name})', 'observed': f'{a} > {b}', 'expected': 'monotone'}
    return None

COLOUR_SCRIPT = r'''
import sys, json, re
sys.dont_write_bytecode = True
sys.path.insert(0, sys.argv[1])
from lib import tags, terminal
terminal.initialize()
res = []
sgr = re.compile('\x1b\\[[0-9;]*m|\x1b\\(B|\x0f')
cases = json.loads(sys.stdin.read())
for name, path, extras in cases:
    tag = tags.get_tag(name)
    xs = [tags.safestr(v) if k == 's' else v for k, v in extras]
    plain = tag.format(path, *xs, color=False)
    col = tag.format(path, *xs, color=True)
    on, off = tag.get_colors()
    res.append([name, plain, col, on, off, sgr.sub('', col)])
json.dump(res, sys.stdout)
'''

def falsify_colour(chk, R, terms=('xterm', 'xterm-256color', 'linux', 'vt100', 'dumb', 'ansi', 'screen')):
    """colour on, with the real terminal layer (curses + terminfo) in a subprocess per TERM: the coloured line is the
    plain line with on/off around the tag name; stripping SGR sequences gives the plain line"""
    T = R.tags
    rng = chk.rng
    names = sorted(T._tags)
    cases = []
    for n in rng.sample(names, 12) + ['invalid-date', 'os-error']:
        extras = [[rng.choice('su'), rng.choice(['x', 'a b', 'PO-Revision-Date:', 'it\'s', '\x1b[31m', ''])] for _ in range(rng.randint(0, 3))]
        cases.append([n, rng.choice(['x.po', 'dir/a b.po']), extras])
    tried = 0
    seen_colour = False
    for term in terms:
        env = dict(os.environ, TERM=term, PYTHONDONTWRITEBYTECODE='1')
        p = subprocess.run([common.PY, '-c', COLOUR_SCRIPT, common.REPO], input=json.dumps(cases), capture_output=True, text=True, env=env, timeout=120)
        if p.returncode != 0:
            return {'kind': 'colour-crash', 'input': f'TERM={term}', 'observed': p.stderr[-500:], 'expected': 'formatted lines'}, tried
        for (name, plain, col, on, off, stripped), case in zip(json.loads(p.stdout), cases):
            tried += 1
            seen_colour = seen_colour or bool(on)
            head = f'{plain[0]}: {case[1]}: '
            ok = plain.startswith(head + name) and col == head + on + name + off + plain[len(head) + len(name):]
            # safestr extras may legitimately carry their own ESC text in this unit test; compare SGR-stripped forms of both
            sgr = re.compile('\x1b\\[[0-9;]*m|\x1b\\(B|\x0f')
            if not ok or stripped != sgr.sub('', plain):
                return {'kind': 'colour-strip', 'input': f'TERM={term} tag={name} path={case[1]!r} extras={case[2]!r}', 'observed': ascii(col),
                        'expected': ascii(head + on + name + off + plain[len(head) + len(name):]), 'plain': ascii(plain)}, tried
    chk.coverage['colour'] = {'terms': list(terms), 'lines': tried, 'some_term_had_colour': seen_colour}
    return None, tried

def falsify_stdout_encoding(chk, R):
    """the real command line with stdout a pipe in several encodings: one line per problem whatever the encoding (printable
    non-ASCII text of the file is kept by the escaper, so it must survive a legacy / ASCII stdout without aborting the run)"""
    import e2e_common as E
    rng = chk.rng
    tried = 0
    with E.Workdir() as wd:
        files = []
        for k in range(6 if chk.thorough else 3):
            cat = G.base_catalog()
            G.set_header(cat, 'Last-Translator', rng.choice(['Za\u017c\u00f3\u0142\u0107 G\u0119\u015bl\u0105', '\u0416\u0443\u043a <zhuk@localhost>', '\u4e2d\u6587 <a@b>', 'J\u00fcrgen']))
            G.set_header(cat, 'Language-Team', rng.choice(['Polski \u2603', 'Deutsch <J\u00fcrgen@localhost>']))
            cat['entries'].append({'flags': ['c-format'], 'msgid': '%s \u20ac', 'msgstr': '%d \u20ac\u00df'})
            cat['entries'].append({'msgid': 'x\n', 'msgstr': '\u0105\U0001f600'})
            files.append(os.path.relpath(wd.write(f'enc{k}/pl.po', G.render_po(cat)), wd.path))
        ref = E.run_cli(files, wd.path, extra_env={'PYTHONIOENCODING': 'utf-8'})
        nref = len(ref['stdout'].splitlines())
        for enc in ('ascii', 'latin-1', 'iso-8859-2', 'cp1252', 'utf-8:strict', 'ascii:strict', 'koi8-r'):
            r = E.run_cli(files, wd.path, extra_env={'PYTHONIOENCODING': enc, 'LC_ALL': 'C'})
            tried += 1
            n = len(r['stdout'].splitlines())
            if r['rc'] != 0 or r['stderr'] or n != nref or ref['rc'] != 0:
                content = open(os.path.join(wd.path, files[0]), encoding='utf-8').read()
                return {'kind': 'stdout-encoding', 'input': f'PYTHONIOENCODING={enc}, stdout piped, {len(files)} files', 'file_content': content,
                        'observed': f'rc={r["rc"]}, {n} lines, stderr: {r["stderr"][-400:]}', 'expected': f'rc=0, {nref} lines (as with UTF-8), empty stderr',
                        'replay': f'PYTHONIOENCODING={enc} {common.PY} {common.REPO}/i18nspector pl.po | cat'}, tried
    chk.coverage['stdout_encodings'] = {'runs': tried, 'lines_per_run': nref}
    return None, tried

def falsify_character_names(chk, R):
    """rule `unicodeName` of the site classifier: encinfo.get_character_name answers clean ASCII for every code point"""
    from lib import encodings as encinfo
    cps = range(0x110000) if chk.thorough else list(range(0x3100)) + G.boundary_codepoints() + [chk.rng.randrange(0x110000) for _ in range(20000)]
    n = 0
    for cp in cps:
        try:
            s = encinfo.get_character_name(chr(cp))
        except ValueError:
            continue
        except Exception as exc:
            return {'kind': 'character-name', 'input': f'U+{cp:04X}', 'observed': repr(exc), 'expected': 'a name or ValueError'}, n
        n += 1
        if not (type(s) is str and all(' ' <= ch <= '~' for ch in s)):
            return {'kind': 'character-name', 'input': f'U+{cp:04X}', 'observed': ascii(s), 'expected': 'printable ASCII'}, n
    return None, n

# ------------------------------------------------------------------------------------------------ dynamic taint stream (end to end)

def load_sites():
    rc, out, err = common.run([common.PY, os.path.join(common.VERIF, 'tools', 'translate', 'tagsites2lean.py'), common.REPO, '--json'])
    if rc != 0:
        return None
    return json.loads(out)

def make_capture(R):
    cli = R.cli
    class Capture(cli.Checker):
        def tag(self, tagname, *extra):
            fr = sys._getframe(1)
            if fr.f_code.co_name == 'tag' and fr.f_code.co_filename.endswith(os.path.join('msgformat', '__init__.py')):
                fr = fr.f_back
            rel = os.path.relpath(fr.f_code.co_filename, common.REPO)
            buf = io.StringIO()
            exc = None
            with contextlib.redirect_stdout(buf):
                try:
                    super().tag(tagname, *extra)
                except Exception as e:      # the real code refused (unknown tag) or crashed while formatting
                    exc = e
            self.calls.append({'tag': tagname, 'extras': list(extra), 'out': buf.getvalue(), 'exc': exc,
                               'file': rel, 'func': fr.f_code.co_name, 'line': fr.f_lineno})
    return Capture

def site_key(call, i, sites):
    """the inventory key of the i-th extra of a captured call (falls back to file:function:tag:extra<i>)"""
    if sites:
        for ts in sites['tag_sites']:
            if ts['file'] == call['file'] and ts['line'] <= call['line'] <= ts['end_line'] and ts['name'] == call['tag']:
                ak = ts['argkeys']
                if i < len(ak) and ak[i] not in (None, '*'):
                    return ak[i]
                if '*' not in ak[:i + 1]:
                    break
        # the safestr was built elsewhere in the same function (e.g. `message = tags.safestr(message)`): unique match by text
        cands = [s for s in sites['safestr_sites'] if s['file'] == call['file'] and s['func'].split('.')[-1] == call['func']]
        val = str.__str__(call['extras'][i])
        if len(cands) == 1:
            return cands[0]['key']
        del val
    return f"{call['file']}:{call['func']}:{call['tag']}:extra{i}"

def check_calls(R, calls, path, ignore, registry, sites):
    """the property, call by call, on what the real Checker.tag printed.  Returns a list of violation dicts."""
    T = R.tags
    bad = []
    for call in calls:
        name, xs, out = call['tag'], call['extras'], call['out']
        where = f"{call['file']}:{call['func']}:{call['line']}"
        if call['exc'] is not None:
            bad.append({'kind': 'tag-raises', 'key': f"tag-raises:{where}:{name}", 'observed': repr(call['exc']), 'expected': 'one printed line', 'where': where, 'tag': name})
            continue
        if name in ignore:
            if out != '':
                bad.append({'kind': 'ignored-tag-printed', 'key': f'ignored:{name}', 'observed': ascii(out), 'expected': "''", 'where': where, 'tag': name})
            continue
        dirty = [(i, G.hostile_chars(str.__str__(x))) for i, x in enumerate(xs) if isinstance(x, T.safestr) and G.hostile_chars(str.__str__(x))]
        for i, hc in dirty:
            bad.append({'kind': 'safestr-carries-file-text', 'key': 'safestr-site:' + site_key(call, i, sites), 'where': where, 'tag': name,
                        'observed': 'safestr extra %d = %s (hostile: %s)' % (i, ascii(str.__str__(xs[i])), ' '.join('U+%04X' % ord(c) for c in hc)),
                        'expected': 'safestr wraps tool-generated text only; stdout line: ' + ascii(out)})
        if name not in registry:
            bad.append({'kind': 'unregistered-tag-printed', 'key': f'unregistered:{name}', 'observed': ascii(out), 'expected': 'DataIntegrityError', 'where': where, 'tag': name})
            continue
        letter = REF_LETTER[registry[name][0]][registry[name][1]]
        exp = f'{letter}: {path}: {name}' + ''.join(' ' + ref_escape(x, T.safestr) for x in xs) + '\n'
        if out != exp:
            bad.append({'kind': 'line-differs-from-reference', 'key': f'line:{where}:{name}', 'where': where, 'tag': name,
                        'observed': ascii(out), 'expected': ascii(exp), 'extras': [ascii(x) for x in xs]})
            continue
        if dirty:
            continue        # the line is corrupted by the safestr extra reported above
        body = out[:-1]
        if not out.endswith('\n') or '\n' in body or len(body.splitlines()) != 1 or G.hostile_chars(body):
            bad.append({'kind': 'line-not-clean', 'key': f'dirty-line:{where}:{name}', 'where': where, 'tag': name, 'observed': ascii(out),
                        'expected': 'exactly one line without control/format characters', 'extras': [ascii(x) for x in xs]})
            continue
        for x in xs:
            if not isinstance(x, T.safestr) and not token_ok(ref_escape(x, T.safestr), x, T.safestr):
                bad.append({'kind': 'escaped-form-not-a-token', 'key': f'token:{where}:{name}', 'where': where, 'tag': name, 'observed': ascii(ref_escape(x, T.safestr)), 'expected': 'token'})
    return bad

def run_file(R, Capture, path, ignore=()):
    ck = Capture(path, options=R.options(ignore))
    ck.calls = []
    crash = None
    buf = io.StringIO()
    with contextlib.redirect_stdout(buf):     # anything printed outside tag() lands here
        try:
            ck.check()
        except Exception as exc:             # crashes are C01's business; what was printed before still counts here
            crash = exc
    return ck.calls, crash, buf.getvalue()

def write_catalog(tmp, idx, cat, kind, rng):
    if kind == 'mo':
        os.makedirs(os.path.join(tmp, f'j{idx}'), exist_ok=True)
        path = os.path.join(tmp, f'j{idx}', f't{idx}.mo')
        data = G.mo_bytes(cat, big=rng.random() < 0.3)
        if rng.random() < 0.1:
            data = data[: rng.randrange(len(data))]         # truncated: invalid-mo-file
        open(path, 'wb').write(data)
        return path
    ext = 'pot' if kind == 'pot' else 'po'
    sub = rng.choice(['', 'pl/LC_MESSAGES', 'de'])
    d = os.path.join(tmp, f'j{idx}', sub)
    os.makedirs(d, exist_ok=True)
    path = os.path.join(d, rng.choice([f't{idx}', 'pl', 'de_DE']) + '.' + ext)
    text = G.render_po(cat)
    data = text.encode('utf-8', 'surrogateescape')
    r = rng.random()
    if r < 0.05:
        data = data.replace(b'msgid "', b'msgid "\xff\xfe', 1)      # broken-encoding
    elif r < 0.10:
        lines = data.split(b'\n')
        lines.insert(rng.randrange(len(lines)), rng.choice([b'garbage \x1b[31m', b'msgstr "unterminated \x1b', b'msgid x', b'"stray \x9b"']))
        data = b'\n'.join(lines)                                     # syntax-error-in-po-file
    open(path, 'wb').write(data)
    return path

WITNESS_PO = '''msgid ""
msgstr ""
"Project-Id-Version: Gizmo Enhancer 1.0\\n"
"Report-Msgid-Bugs-To: gizmoenhancer@jwilk.net\\n"
"POT-Creation-Date: 2012-11-01 14:42+0100\\n"
"PO-Revision-Date: 2012-11-01 14:42+0100\\n"
"Last-Translator: Jakub Wilk <jwilk@jwilk.net>\\n"
"Language-Team: Polish <debian-l10n-polish@lists.debian.org>\\n"
"Language: pl\\n"
"MIME-Version: 1.0\\n"
"Content-Type: text/plain; charset=UTF-8\\n"
"Content-Transfer-Encoding: 8bit\\n"

#, python-format
msgid "%(a)s"
msgstr "%(a\x1b[31m)s %(a\x1b[31m)d"
'''

def taint_stream(chk, R, nfiles, sites):
    """catalogs with a hostile marker in every free-text slot through the real Checker.check() with a capturing tag();
    the property is evaluated on every call; the captured calls are also replayed through the Lean model"""
    T = R.tags
    rng = chk.rng
    Capture = make_capture(R)
    registry = registry_from_file()
    tmp = tempfile.mkdtemp(prefix='i18n-verif-c02.')
    findings = []          # (violation dict, replay info)
    lines, outs = [], []
    stats = {'files': 0, 'calls': 0, 'crashes': 0, 'tags_seen': set(), 'sites_seen': set(), 'safestr_extras': 0, 'escaped_extras': 0,
             'escaped_extras_with_marker': 0, 'stray_stdout': 0, 'slots': {}}
    try:
        jobs = []
        # 1. the recorded witness, every slot once with the combined marker, then random combinations
        wpath = os.path.join(tmp, 'witness.po')
        open(wpath, 'w', encoding='utf-8').write(WITNESS_PO)
        jobs.append((wpath, 'witness', ['python-format key'], 'esc-sgr'))
        idx = 0
        for slot in G.all_slot_names():
            for kind in ('po', 'pot', 'mo'):
                cat, used = G.tainted_catalog(rng, 'all', [slot])
                idx += 1
                jobs.append((write_catalog(tmp, idx, cat, kind, rng), kind, used, 'all'))
        # files the loader refuses: a directory named like a catalog, an unknown extension
        os.makedirs(os.path.join(tmp, 'dir.po'), exist_ok=True)
        jobs.append((os.path.join(tmp, 'dir.po'), 'dir', ['path'], 'all'))
        os.makedirs(os.path.join(tmp, 'dir.mo'), exist_ok=True)
        jobs.append((os.path.join(tmp, 'dir.mo'), 'dir', ['path'], 'all'))
        open(os.path.join(tmp, 'x.txt'), 'w').write('x')
        jobs.append((os.path.join(tmp, 'x.txt'), 'txt', ['path'], 'all'))
        jobs.append((os.path.join(tmp, 'missing.po'), 'missing', ['path'], 'all'))
        # files polib refuses: the marker in every position of a line that a syntax-error message can quote
        good = G.render_po(G.base_catalog())
        k = 0
        for mk in sorted(G.MARKERS):
            m = G.MARKERS[mk].replace('\n', ' ')
            tok = m.replace(' ', '').replace('\t', '') or 'x'
            for shape in ('#| {t}msgid "x"\nmsgid "a"\nmsgstr "b"\n', '#| {t} "x"\nmsgid "a"\nmsgstr "b"\n', '#| msgid{t} "x" y\nmsgid "a"\nmsgstr "b"\n',
                          '#~| {t} "x"\n#~ msgid "a"\n#~ msgstr "b"\n', '#~ {t} "x"\n', '{t} "x"\n', 'msgid "a"\n{t}\n', 'msgid "a{m}\nmsgstr ""\n',
                          'msgid "a" {m}\nmsgstr ""\n', 'msgid "a"\nmsgstr[{t}] "x"\n', 'msgid "a"\nmsgstr "b" "c{m}\n', 'msgid "a"\n"b"{t}\nmsgstr ""\n',
                          'msgctxt {t}\nmsgid "a"\nmsgstr ""\n', 'msgid "a"\nmsgid_plural {t}\nmsgstr[0] ""\n', 'domain {t}\n'):
                k += 1
                pth = os.path.join(tmp, f'syn{k}.po')
                open(pth, 'wb').write((good + '\n' + shape.format(t=tok, m=m)).encode('utf-8', 'surrogateescape'))
                jobs.append((pth, 'po-syntax', ['syntax-error line'], mk))
        while len(jobs) < nfiles:
            mk = rng.choice(sorted(G.MARKERS))
            cat, used = G.tainted_catalog(rng, mk)
            if rng.random() < 0.15:
                cat['distant_header'] = True
            if rng.random() < 0.05:
                cat['no_header'] = True
            if rng.random() < 0.1 and cat['entries']:
                cat['entries'][rng.randrange(len(cat['entries']))]['obsolete'] = True
            kind = rng.choice(['po', 'po', 'po', 'pot', 'mo'])
            idx += 1
            jobs.append((write_catalog(tmp, idx, cat, kind, rng), kind, used, mk))
        for path, kind, used, mk in jobs:
            ignore = ()
            if rng.random() < 0.1:
                ignore = tuple(rng.sample(sorted(registry), 5))
            calls, crash, stray = run_file(R, Capture, path, ignore)
            stats['files'] += 1
            stats['calls'] += len(calls)
            stats['crashes'] += crash is not None
            for s in used:
                stats['slots'][s] = stats['slots'].get(s, 0) + len(calls)
            if stray:
                stats['stray_stdout'] += 1
                findings.append(({'kind': 'stdout-outside-tag', 'key': 'stray-stdout', 'observed': ascii(stray[:300]), 'expected': "nothing is printed except by Checker.tag", 'tag': '-', 'where': '-'}, path, used, mk))
            for c in calls:
                stats['tags_seen'].add(c['tag'])
                stats['sites_seen'].add((c['file'], c['line']))
                for x in c['extras']:
                    if isinstance(x, T.safestr):
                        stats['safestr_extras'] += 1
                    else:
                        stats['escaped_extras'] += 1
                        if not isinstance(x, (bytes, int)) and G.hostile_chars(str(x)):
                            stats['escaped_extras_with_marker'] += 1
            for v in check_calls(R, calls, path, set(ignore), registry, sites):
                findings.append((v, path, used, mk))
            for c in calls:
                if c['exc'] is None:
                    lines.append(' '.join(['tags tag', '1' if c['tag'] in ignore else '0', hx(c['tag']), hx(path)] + [enc_extra(x, T) for x in c['extras']]))
                    outs.append('ok ' + hx(c['out']))
        replays = []
        seen = set()
        for v, path, used, mk in findings:
            if v['key'] in seen:
                continue
            seen.add(v['key'])
            data = open(path, 'rb').read() if os.path.isfile(path) else b''
            replays.append(dict(v, file_name=os.path.basename(path), marker=mk, slots=used,
                                file_content=data.decode('utf-8', 'backslashreplace') if not path.endswith('.mo') else None,
                                file_hex=data.hex() if len(data) < 6000 else data[:6000].hex() + '...',
                                replay=f'write file_hex to {os.path.basename(path)} and run: {common.PY} {common.REPO}/i18nspector {os.path.basename(path)} | cat -v'))
    finally:
        shutil.rmtree(tmp, ignore_errors=True)
    stats['tags_seen'] = sorted(stats['tags_seen'])
    stats['distinct_tags'] = len(stats['tags_seen'])
    stats['distinct_call_sites'] = len(stats.pop('sites_seen'))
    return replays, stats, lines, outs
