#!/usr/bin/env python3
"""Rewrite the table of DESIGN.md §11.5 (between the markers) from seeded/*/meta.json."""
import glob, json, os, re
HERE = os.path.dirname(os.path.dirname(os.path.abspath(__file__)))
os.chdir(HERE)
rows = []
for f in sorted(glob.glob('seeded/*/meta.json')):
    m = json.load(open(f))
    sid = os.path.basename(os.path.dirname(f))
    need = re.sub(r'\s+', ' ', m.get('needs_to_manifest', '')).replace('|', '\\|')
    cr = m.get('check_result', {})
    ex = cr.get('replay_excerpt') or {}
    kind = str(ex.get('kind') or ex.get('what') or '')[:70].replace('|', '\\|')
    caught = m.get('caught_by', '')
    if 'MISSED' in caught:
        res = '**missed**'
    elif 'without' in caught:
        res = 'alarm, no input found'
    else:
        res = 'caught' + (f' ({kind})' if kind else '')
    if m.get('history'):
        res += ' — after strengthening: ' + re.sub(r'\s+', ' ', m['history'] if isinstance(m['history'], str) else '; '.join(map(str, m['history'])))[:260].replace('|', '\\|')
    rows.append(f'| {sid} | {need[:300]} | {res} |')
table = '| Seeded | Needs, to manifest | Result of `./check <property> quick` on it |\n|---|---|---|\n' + '\n'.join(rows) + '\n'
p = 'DESIGN.md'
s = open(p).read()
a, b = '<!-- seeded-table:begin -->', '<!-- seeded-table:end -->'
if a in s:
    s = s[:s.index(a) + len(a)] + '\n' + table + s[s.index(b):]
    open(p, 'w').write(s)
print(len(rows), 'rows')
