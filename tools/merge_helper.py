#!/usr/bin/env python3
"""Resolve the standard conflicts of merging a builder branch: known_findings.json (union), Driver.lean (union of
imports and dispatch lines), MANIFEST.json / I18n.lean (regenerated)."""
import json, os, re, subprocess, sys
HERE = os.path.dirname(os.path.dirname(os.path.abspath(__file__)))
os.chdir(HERE)

def show(stage, path):
    p = subprocess.run(['git', 'show', f':{stage}:{path}'], capture_output=True, text=True)
    return p.stdout if p.returncode == 0 else None

# known_findings.json
ours, theirs = show(2, 'known_findings.json'), show(3, 'known_findings.json')
if ours is not None and theirs is not None:
    a, b = json.loads(ours), json.loads(theirs)
    seen = {(f['property'], f['key']) for f in a['findings']}
    for f in b['findings']:
        f.setdefault('status', 'open')
        if (f['property'], f['key']) not in seen:
            a['findings'].append(f)
    json.dump(a, open('known_findings.json', 'w'), indent=1, ensure_ascii=False)
    subprocess.run(['git', 'add', 'known_findings.json'])

# Driver.lean
ours, theirs = show(2, 'lean/Driver.lean'), show(3, 'lean/Driver.lean')
if ours is not None and theirs is not None:
    imports = [l for l in ours.splitlines() if l.startswith('import ')]
    for l in theirs.splitlines():
        if l.startswith('import ') and l not in imports:
            imports.append(l)
    disp_o = [l for l in ours.splitlines() if re.match(r'\s*\| "[a-z0-9-]+" :: op :: args =>', l)]
    disp = list(disp_o)
    for l in theirs.splitlines():
        if re.match(r'\s*\| "[a-z0-9-]+" :: op :: args =>', l) and l not in disp:
            disp.append(l)
    body = [l for l in ours.splitlines() if not l.startswith('import ')]
    out = []
    done = False
    for l in body:
        if l in disp_o:
            if not done:
                out += disp
                done = True
            continue
        out.append(l)
    open('lean/Driver.lean', 'w').write('\n'.join(imports + out) + '\n')
    subprocess.run(['git', 'add', 'lean/Driver.lean'])

subprocess.run(['python3', 'tools/mkmanifest.py'])
subprocess.run(['python3', 'tools/mkroot.py'])
subprocess.run(['git', 'add', 'MANIFEST.json', 'lean/I18n.lean'])
print(subprocess.run(['git', 'status', '--short'], capture_output=True, text=True).stdout[:1500])
