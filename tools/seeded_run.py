#!/usr/bin/env python3
"""Confirm a seeded change and run the checks against it, on a scratch copy of /repo (never /repo itself).
usage: tools/seeded_run.py <dir with patch.diff + demo.py> <property id> [more property ids…]"""
import json, os, shutil, subprocess, sys, tempfile
HERE = os.path.dirname(os.path.dirname(os.path.abspath(__file__)))

def sh(cmd, cwd=None, env=None, timeout=3600):
    p = subprocess.run(cmd, cwd=cwd, env=env, capture_output=True, text=True, timeout=timeout)
    return p.returncode, (p.stdout + p.stderr)

def main():
    d = os.path.abspath(sys.argv[1])
    pids = sys.argv[2:]
    scratch = tempfile.mkdtemp(prefix='i18n-seed.')
    res = {'dir': os.path.relpath(d, HERE), 'checks': {}}
    try:
        repo = os.path.join(scratch, 'repo')
        subprocess.run(['git', 'clone', '-q', '/repo', repo], check=True)
        demo = os.path.join(d, 'demo.py')
        rc, out = sh(['/venv/bin/python', demo], cwd=repo)
        res['demo_on_unchanged'] = rc
        rc, out = sh(['git', 'apply', os.path.join(d, 'patch.diff')], cwd=repo)
        res['patch_applies'] = (rc == 0)
        if rc != 0:
            res['apply_error'] = out[-500:]
        else:
            rc, out = sh(['/venv/bin/python', '-m', 'pytest', '-q', '-p', 'no:cacheprovider', '-x'], cwd=repo)
            res['suite_with_patch'] = out.strip().splitlines()[-1] if out.strip() else ''
            res['suite_rc'] = rc
            rc, out = sh(['/venv/bin/python', demo], cwd=repo)
            res['demo_with_patch'] = rc
            res['demo_output'] = out[-600:]
            env = dict(os.environ, VERIF_REPO=repo)
            for pid in pids:
                for tier in ('quick',):
                    rc, out = sh([os.path.join(HERE, 'check'), pid, tier], cwd=HERE, env=env)
                    lines = [l for l in out.splitlines() if l.startswith(('VIOLATION', 'KNOWN-FINDING', 'OK ', 'INFRA'))]
                    entry = {'rc': rc, 'lines': lines}
                    for l in lines:
                        if l.startswith('VIOLATION') and 'replay=' in l:
                            path = l.split('replay=')[1].split()[0]
                            try:
                                rp = json.load(open(os.path.join(HERE, path)))
                                entry['replay_excerpt'] = {k: (str(v)[:300]) for k, v in rp.items() if k in ('kind', 'input', 'expr', 'bits', 'n', 'what', 'plural_forms', 'replay', 'value', 'codomain', 'period', 'tool', 'reference')}
                            except Exception:
                                pass
                    res['checks'][f'{pid}:{tier}'] = entry
    finally:
        shutil.rmtree(scratch, ignore_errors=True)
        # leave the committed Generated files in step with the real /repo
        subprocess.run([os.path.join(HERE, 'setup.sh')], capture_output=True)
    print(json.dumps(res, indent=1))

if __name__ == '__main__':
    main()
